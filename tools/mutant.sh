#!/bin/bash
# usage: tools/mutant.sh <patch-file | revert:<commit>> <Cxx> [tier] [seed]
# Applies a change to a scratch worktree of /repo, runs one check against it (evidence/replay go to a
# scratch dir), prints the verdict lines, and removes worktree + build output again.
set -u
CHANGE="$1"; [[ "$CHANGE" != revert:* && "$CHANGE" != /* ]] && CHANGE="$PWD/$CHANGE"; PROP="$2"; TIER="${3:-quick}"; SEED="${4:-0}"
WT=$(mktemp -d /tmp/vp-mut-XXXXXX)
rmdir "$WT"
git -C /repo worktree add -q --detach "$WT" HEAD || exit 2
if [[ "$CHANGE" == revert:* ]]; then
  git -C "$WT" revert --no-commit "${CHANGE#revert:}" >/dev/null || { echo "revert failed"; git -C /repo worktree remove --force "$WT"; exit 2; }
else
  git -C "$WT" apply "$CHANGE" || { echo "patch failed"; git -C /repo worktree remove --force "$WT"; exit 2; }
fi
OUT=$(mktemp -d /tmp/vp-mut-out-XXXXXX)
cd /verif
VERIF_REPO="$WT" VERIF_OUT="$OUT" ./check "$PROP" --tier "$TIER" --seed "$SEED" > "$OUT/log" 2>&1
RC=$?
grep -E "^(VIOLATION|KNOWN-FINDING|BROKEN|C[0-9]+ tier)" "$OUT/log" | cut -c1-220 | head -12
grep -A3 "^VIOLATION" "$OUT/log" | head -12 | cut -c1-300
echo "exit=$RC"
# replay the first reported violation against the changed tree (must reproduce) and against the unchanged tree (must hold)
FIRST=$(grep -m1 "^VIOLATION" "$OUT/log" | sed -E 's/.*replay=//')
if [ -n "$FIRST" ] && [ "${NO_REPLAY:-0}" != 1 ]; then
  VERIF_REPO="$WT" VERIF_OUT="$OUT" ./check "$PROP" --replay "$FIRST" > "$OUT/replay-mut.log" 2>&1; echo "replay on changed tree: exit=$? ($(grep -m1 '^replay verdict' "$OUT/replay-mut.log"))"
  VERIF_OUT="$OUT" ./check "$PROP" --replay "$FIRST" > "$OUT/replay-clean.log" 2>&1; echo "replay on unchanged tree: exit=$? ($(grep -m1 '^replay verdict' "$OUT/replay-clean.log"))"
fi
mkdir -p /tmp/mut/replays/$PROP; cp -r "$OUT/replay/$PROP/." /tmp/mut/replays/$PROP/ 2>/dev/null; cp "$OUT/log" /tmp/mut/replays/$PROP/log 2>/dev/null
KEY=$(python3 -c "import hashlib,sys;print('alt-'+hashlib.sha1(sys.argv[1].encode()).hexdigest()[:10])" "$WT")
rm -rf "/verif/target/$KEY" "/verif/target/harness-$KEY" "$OUT"
git -C /repo worktree remove --force "$WT"
exit $RC
