#!/bin/bash
# usage: tools/sweep.sh <tier> <seed> [props...]   -- runs the checks one after the other, prints a summary line each
TIER="${1:-quick}"; SEED="${2:-0}"; shift 2
PROPS="$@"; [ -z "$PROPS" ] && PROPS="C01 C02 C03 C04 C05 C06 C07 C08 C09 C10 C11 C12 C13 C14 C15 C16 C17 C18 C19 C20"
cd "$(dirname "$0")/.."
for p in $PROPS; do
  s=$(date +%s)
  ./check $p --tier $TIER --seed $SEED > /tmp/sweep-$p-$TIER-$SEED.log 2>&1
  rc=$?
  e=$(date +%s)
  echo "$p tier=$TIER seed=$SEED exit=$rc wall=$((e-s))s $(grep -c '^VIOLATION' /tmp/sweep-$p-$TIER-$SEED.log) violations, $(grep -c '^KNOWN-FINDING' /tmp/sweep-$p-$TIER-$SEED.log) known; $(head -1 /tmp/sweep-$p-$TIER-$SEED.log | cut -c1-110)"
done
