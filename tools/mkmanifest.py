#!/usr/bin/env python3
"""Regenerates /verif/MANIFEST.json from the table below (kept next to the checks so the two stay in sync)."""
import json, os, subprocess
V = os.path.dirname(os.path.dirname(os.path.abspath(__file__)))

# strata added in later sessions (appended to the texts below)
ADDED = {
 "C01": "invalid-UTF-8 family (every kind of ill-formed sequence x preceding text x following text or end of file x route: entry, @import, @use, @forward, meta.load-css x extension)",
 "C02": "stale-files / other-layout histories (the same paths or entry name compiled first with other contents, with files missing, with load paths permuted or dropped), other-option prefixes, @import / meta.load-css / layered projects (one module name beside the importer and in two load paths), generated programs as inputs",
 "C03": "binary operations are printed relying on operator precedence and left associativity (not only fully parenthesised); @each destructuring over lists of lists, self-recursive functions, `!default !global`",
 "C04": "`&` as the argument of :not()/:is()/:where(), `&` followed by pseudo-element/attribute/negation suffixes, two suffixed `&` in one selector, child lists whose members multiply differently against the parent list, and the selector form `@at-root <selector> {...}`",
 "C05": "@supports conditions and media query lists drawn from their grammars (negation, and/or chains, nested groups, ranges, functions, interpolation)",
 "C06": "statement shapes include the @supports / media query grammars of C05",
 "C07": "every value is also printed through interpolation, inspect(), string concatenation, inside lists and maps and with a unit (probe-observed text vs the correctly rounded decimal)",
 "C08": "operations between two compound quantities whose factors are pairwise convertible in position (converted result or error, never the raw magnitudes)",
 "C10": "second law through trimming: a multi-compound extender that owns a simple selector must keep its generated selector unless what covers it is at least as specific (covering-extender family)",
 "C11": "selector-unify results with four compounds are judged on four-element DOMs also in the quick tier",
 "C12": "members whose own names start with the prefix they are forwarded under (stripped exactly once), forwarded mixins",
 "C13": "plain-CSS import family (url(), http(s)://, //, .css, media / supports modifiers, mixed lists) beside loadable Sass files of the same name",
 "C14": "a share of the calls passes trailing arguments by their documented parameter names",
 "C15": "hue-turn family: periodicity, adjust-color vs adjust-hue, hue read-back range, turns beyond a full circle in both directions",
 "C16": "n-ary min/max/clamp with exactly one provably incompatible pair at any positions",
 "C18": "Sass-only construct x embedding context x preceding plain-CSS statement family (1234 inputs) that CSS mode must reject",
 "C19": "expected Logger lines also under CRLF and CR line endings (CR-only line numbering is a recorded known finding)",
 "C20": "large outputs straddling the usual buffer sizes with preserved multi-line comments, to stdout and to files",
}

CHECKS = {
 "C01": dict(engine="vw+vp+asan",
   text="totality oracle (exactly one of Ok / structured Err is returned within logical-step budgets; no panic, no process death, parse-progress invariant holds, the Err can be inspected and rendered) over ~1M hostile executions per quick run: golden corpus x 3 syntaxes, near-miss mutations, token soup, ill-typed calls of every builtin, deep shapes, hex escapes of every boundary code point in every lexical context, indentation soup for the indented syntax, invalid/unreadable bytes for entry and imported files, release-like and debug-like profiles; thorough adds the same workload under AddressSanitizer",
   note="held on the executions listed in the evidence file only; hang verdicts rely on the `verif` step counters (reads without cursor progress <= 1000+64*len(buffer); total reads <= 2e8 on inputs <= 8 KiB); exceeding the evaluation budgets is treated as the stylesheet's own unbounded loop/recursion (excluded by the property)",
   technique="runtime monitoring: catch_unwind/process-death observer + hooked bounded-progress invariant over fuzzed executions; ASan build in thorough tier"),
 "C02": dict(engine="vw+vp+tsan+miri",
   text="byte-equality oracle against the same request executed alone on a fresh thread, observed under single-thread histories (corpus/failing/other-style prefixes, adversarial interner pre-loads, repetition), fresh processes (fresh hash seeds) and 2-16 concurrent threads; unique-id() monitor; thorough adds ThreadSanitizer on the threaded workload and Miri with seeded schedules",
   note="histories <= 60 compilations, schedules sampled not enumerated; three order-exposure defects with one root cause (maps ordered by interner key / hash order) are recorded as known findings and matched narrowly (permutation of tokens in programs that use the triggering construct)",
   technique="runtime monitoring: differential history/process/schedule replay against a fresh-thread reference; TSan and Miri (seeded schedules) in thorough tier"),
 "C06": dict(engine="vw+vp",
   text="metamorphic monitor: every input (golden corpus, compiling near-miss mutations, generated programs biased to the value-to-text conversion sites, every function of every built-in module (names read through meta.module-functions) over a value pool incl. calculations, statement-shape programs) is compiled in both styles; canonical (context, selector, declarations) lists from an independent CSS reader must be equal once exactly the licensed differences are removed (whitespace, optional semicolons, non-/*! comments, number and colour spellings); success/failure, @error text, Logger message sequences and probe-observed values must be equal; string tokens are never canonicalised",
   note="the canonicaliser is the trusted base (CSS Syntax 3 tokenizer + colour table + hsl->rgb); outputs that are not parseable CSS in either style are inconclusive; wording of compiler-generated error messages is not compared",
   technique="runtime monitoring: metamorphic differential oracle (expanded vs compressed) over recorded outputs, Logger traces and probe values"),
 "C05": dict(engine="vw+vp+miri",
   text="on every successful compilation in the domain (golden corpus minus the committed list of items whose expected output is deliberately not plain CSS, plus generated clean programs and hostile string literals; x {expanded, compressed} x {allows_charset}): explicit UTF-8 validation of the returned bytes, independent CSS reader (balanced blocks, terminated strings/comments/urls), scan for Sass-only syntax, @charset/BOM rule, and re-compilation of the output as plain CSS and as SCSS whose canonical block list must equal the first one; thorough adds the serializer workload under Miri",
   note="fixed point compared on canonical (context, selector, declarations) lists, ignoring declaration-less rules; outputs containing `#{` inside strings are not re-fed; nested @media re-merging is left to C17; domain exclusions are listed in vp/c05_domain_exclusions.json with the failing check",
   technique="runtime monitoring: invariant checks on recorded outputs (independent CSS reader) + metamorphic fixed-point re-compilation; Miri for the unsafe from_utf8_unchecked path"),
 "C08": dict(engine="vw+vp",
   text="reference-model monitor: an independent table-free unit model (dimension classes with exact ratios) predicts value, unit and error status of `1u op xv` for ALL 36x36 ordered pairs of the 34 known units + an unknown unit + unitless x 10 operations x 3 magnitudes (exhaustively enumerated sub-space), plus sampled round trips, transitivity, cancellation, products/quotients of up to 3x3 unit factors judged as physical quantities, n-ary math.min/max over mixed units; observations are exact f64 bits and unit lists from the probe; emission of compound units must fail in both styles",
   note="numeric agreement within relative 1e-11; for cancellations the result is compared as a quantity (any convertible unit accepted); convertibility of *compound* units is not demanded",
   technique="runtime monitoring: reference-model oracle over probe-observed values, exhaustive over the unit-pair table"),
 "C17": dict(engine="vw+vp",
   text="truth-table oracle: for every nested pair outer{inner{rule}} the set of media environments (type x truth values of 3 opaque features) satisfying the emitted structure (merged list, nested lists, or nothing) must equal sat(outer) & sat(inner); ALL ordered pairs of single queries over 4 types x 3 modifiers x 2^3 feature subsets are enumerated (minus the exclusions in the quantifier), query lists, triples, interpolated and upper-case spellings are sampled",
   note="features are opaque booleans; `only` is a no-op; query text outside the input fragment counts as altered text",
   technique="runtime monitoring: exhaustive reference-model (truth table) oracle over compiled outputs read by an independent CSS reader"),
 "C09": dict(engine="vw+vp",
   text="algebraic-law monitor over a universe of ~100 representative value expressions: ALL ordered pairs are evaluated inside one compilation for ==, !=, map-has-key, map-get, index, map-merge/map-remove/map.set sizes; reflexivity, symmetry, != as negation and agreement of every keyed operation with == are checked on the full matrices, all triples are decided via row equality (a==b must imply identical rows); duplicate-key map literals are compiled pairwise; random map operation sequences are compared with an insertion-ordered association-list model that uses grass's own == answers",
   note="no table of which values are equal is imposed (laws and cross-operation agreement only); NaN excluded; key sequences compared modulo ==",
   technique="runtime monitoring: law/invariant oracle over probe-observed truth matrices + association-list reference model for operation histories"),
 "C15": dict(engine="vw+vp",
   text="invariant monitor at the probe (every colour value produced by any workload: integer r/g/b in [0,255], alpha in [0,1]); all 148 named colours against the CSS Color 4 table embedded in the monitor and across spellings (name, hex, rgb(), rgba(), hsl(), hwb(), upper case: ==, equal channels, identical compressed text); all 4096 short-hex colours; printed text of colours on and next to the 17-grid read back by the independent CSS reader must denote the value's channels (both styles); hsl/hwb round trips, invert/complement involutions and identity-at-0 laws evaluated inside the compiler over a lattice of the 8-bit cube with +-1 neighbours (thorough: the whole 2^24 cube sharded by red channel); opacify/transparentize, scale/adjust/change-color and out-of-range arguments against their definitions",
   note="laws are evaluated by the compiler itself and only mismatches are reported through the probe; out-of-range arguments may be clamped or rejected, never kept",
   technique="runtime monitoring: invariant-at-hook over probe-observed colour values + law/round-trip oracle, exhaustive over names and short hex (thorough: the 8-bit cube)"),
 "C07": dict(engine="vw+vp",
   text="reference oracles independent of grass over boundary-seeking doubles: literals must parse to the nearest double (exact bits through the probe); + - * math.div and unary minus bit-exact vs IEEE arithmetic on the observed operand values, % vs the Sass rule; three-valued 1e-11 tolerance oracle for == != < <= > >=, round/ceil/floor/abs and integer acceptance in nth()/@for; sass:math vs Python math; every value printed in both styles and compared with the correctly rounded 10-digit decimal (decimal module), notation rules and re-reading",
   note="tolerance oracle is three-valued near the 1e-11 boundary; both double-precision realisations of Sass modulo are accepted; half-up and half-even accepted on exact decimal ties",
   technique="runtime monitoring: reference-model oracles (IEEE/decimal/libm) over probe-observed f64 bit patterns and printed text"),
 "C16": dict(engine="vw+vp",
   text="reference-evaluator monitor: random calculation trees (depth <= 4, + - * /, px/in/cm/em/rem/%/vw/deg/turn/s/ms/unitless, negatives, nested calc/min/max/clamp, variables or interpolation as operands, both styles, printed fully parenthesised or with minimal parentheses) are compiled; an independent evaluator computes the quantity of the source AST and of the emitted text (own tokenizer/parser: precedence, parentheses, signs) under 8 random unit environments and the two must agree; outputs must be a plain number iff all operands are mutually convertible; provably incompatible operands must be rejected; panics refute",
   note="tolerance 2e-6 relative (emitted numbers carry 10 digits); `%` is treated as possibly compatible with anything; one known finding (clamp with MIN > MAX, mirrors dart-sass) is matched only when the expression contains such a clamp",
   technique="runtime monitoring: reference-model (independent calc evaluator) oracle over compiled outputs under randomised unit environments"),
 "C14": dict(engine="vw+vp",
   text="reference-model monitor: vp/model/builtins.py (written from the sass-lang.com documentation) predicts the structural result or the argument-error status of every call of the list, map and string built-ins with generated arguments (lists of length 0-6 x separators x brackets, indices in [-8,8] and non-integers, nested maps and key paths, strings with combining/astral/ZWJ code points, wrongly typed and surplus/missing arguments); results are compared as value structures delivered by the probe (not text), and every sass:list/map/string function is compared with its global alias on the same arguments",
   note="error status only (not wording); separators of lists with fewer than two elements are not compared; equality of the empty list and the empty map is not imposed",
   technique="runtime monitoring: reference-model oracle over probe-observed value structures + alias differential"),
 "C03": dict(engine="vw+vp",
   text="reference-interpreter monitor: vp/model/sassscript.py (written from the specification's evaluation rules: frame stack with semi-global scopes, one scope per loop, closures sharing frames by reference, argument binding with defaults evaluated in the callee, @content in the caller's closure, @return unwinding loops, operators with short-circuit) predicts for every generated well-typed terminating program the ordered list of emitted declarations, the ordered Logger messages and the error status (incl. the inspected @error value); grass's output is read back with the independent CSS reader; every program is run as SCSS and as indented syntax in a sampled output style",
   note="programs outside the model are inconclusive; identical repeated warnings from one location are collapsed on both sides; serializer-time errors are deferred in the model as in the reference implementation",
   technique="runtime monitoring: reference-model (independent interpreter) oracle over recorded outputs and Logger traces of generated programs"),
 "C18": dict(engine="vw+vp",
   text="metamorphic monitor: byte-equal outputs (or common failure) are required between the SCSS and the indented print of every generated program (two independent printers), between each source and its rewrites (LF->CRLF/CR/FF, blank lines and trailing spaces, `//` comment lines, extra spaces around separable tokens, spaces between tokens replaced by newlines/indentation/tabs/end-of-line comments, leading BOM/@charset, consistent and mixed `_`/`-` swaps in variable/function/mixin names), for golden-corpus inputs under newline/BOM/@charset rewrites, and between plain-CSS corpus outputs parsed as CSS and as SCSS; a list of Sass-only constructs must be rejected in CSS mode",
   note="rewrites never touch string contents (the generator emits no raw newlines inside strings; corpus inputs with escaped newlines are skipped); one known finding (BOM shifts the re-indentation column of a first-line loud comment) is matched only for sources starting with an indented `/*`",
   technique="runtime monitoring: metamorphic differential oracle over outputs of syntax/spelling variants of the same program"),
 "C20": dict(engine="cli+vw+vp+valgrind",
   text="differential monitor between the real `grass` binary built from the tree and the library it wraps (worker with StdFs/StdLogger in the same working directory): exit status, stdout/output-file bytes, stderr (rendered error in the selected Unicode/ASCII mode, warnings) for corpus, mutated and diagnostic/import-heavy inputs x all 2^5 flag combinations x {file, --stdin} x {stdout, output file (fresh, or existing with longer stale content)}, plus injected I/O faults (missing file, directory as input, non-UTF-8 file or stdin, unwritable output) that must exit non-zero with empty stdout; thorough uses the repository's release profile (LTO, panic=abort) and adds valgrind memcheck on a sample",
   note="the library oracle is the same code the binary links; process spawning bounds the volume (~6k invocations per quick run)",
   technique="runtime monitoring: process-boundary differential oracle (exit code, fd 1/2, output file) + valgrind memcheck in thorough tier"),
 "C19": dict(engine="vw+vp",
   text="(a) bounds monitor on every error location reported for hundreds of thousands of failing inputs (corpus error! items, mutations, soup, ill-typed builtin calls, multi-byte text around re-lexed selectors/media queries, broken files reached through @import/@use/@forward; three syntaxes; Unicode and ASCII rendering): named file is the entry or a file that was read, begin <= end, lines/columns inside the text the harness supplied, Display starts with `Error: <message>` and never panics, ASCII mode stays ASCII; (b) offline checker of the Logger event log of generated programs against the reference interpreter's trace including file name and 1-based line of every executed @debug/@warn (lines known from the printers), in the entry file and in imported/used files, SCSS and indented; (c) quiet => empty trace, also for the constructs with a compiler/reference message of their own (30-program family x both styles); (d) with a custom Logger no byte may appear on fd 1/2 (captured around every compilation)",
   note="identical (location, message) warnings are collapsed on both sides; IoError/FromUtf8Error have no location in the public API and are only checked for renderability",
   technique="runtime monitoring: invariant checks over recorded error objects + offline trace checker of Logger event logs against a reference model; fd 1/2 capture"),
 "C04": dict(engine="vw+vp",
   text="reference-flattener monitor: vp/model/flatten.py builds the output tree the way the reference semantics prescribe (children attached to the nearest non-style-rule ancestor, bubbling of @media/@supports/unknown at-rules with a copy of the style rule inside, merged @media escaping the enclosing @media, childless copies when the ancestor already has a visible following sibling, @at-root with every with/without query incl. trimming of contiguous kept ancestors, `&` resolution parent-major with suffixes/repeats/leading combinators, nested properties joined with `-`); the ordered (context, selector, declarations) list read from grass's output by the independent CSS reader must equal the model's, for SCSS and indented prints and both styles",
   note="trees outside the flattener's fragment are inconclusive; declaration-less blocks are dropped on both sides; selector/query spelling canonicalised",
   technique="runtime monitoring: reference-model (independent flattener) oracle over outputs of generated rule trees"),
 "C11": dict(engine="vw+vp",
   text="DOM-truth monitor: an independent selector engine (parser, specificity, bit-parallel matcher over ALL ordered forests with <= 3 elements (thorough: 4) labelled over the features a case mentions) judges every claim: is-superselector(A,B) true => no element matched by B and not by A, reflexivity; selector-unify results match only elements matched by both arguments, null only when the conjunction of two compounds is empty; selector-parse round trip preserves the match set; selector-nest/-append equal the selectors of the equivalent nested rules; selector-extend equals (semantically) what `S{..} E{@extend T}` yields and selector-replace stays within it for negation-free selectors; any panic refutes",
   note="opaque features for attribute selectors and argument-less pseudo-classes; exactly one type, at most one id and pseudo-element per element; soundness (not completeness) of is-superselector/unify is demanded",
   technique="runtime monitoring: exhaustive small-model (DOM enumeration) oracle over probe-observed results + metamorphic comparison with the style-rule/@extend code paths"),
 "C10": dict(engine="vw+vp",
   text="DOM-truth monitor for @extend: the credited semantics (an element counts as matching target T iff it matches T natively or, recursively, an extender of T; least fixed point) is computed by the monitor on the SOURCE selectors and every rewritten selector read from the output is judged on all ordered forests with <= 3 elements (thorough: 4) over the case's features: soundness, completeness for single-compound extenders, first law, second law (negation/pseudo-free cases), no placeholder in the output, order independence (source order vs reversed, compared by match sets); generators include transitive chains and lists holding one target behind two different combinators; plus the @media / !optional / missing-target families",
   note="inside :not() only plain single-compound extenders are judged for soundness (Sass deliberately under-extends there); sheets combining negation with chained extends, and outputs too large for the DOM oracle, are inconclusive; known findings (missing target accepted, extension across @media, self-extension blow-up, order-dependence/incompleteness classes that mirror the reference algorithm's per-@extend application, sibling-combinator weave seen with 4-element DOMs) are matched narrowly on structural facts",
   technique="runtime monitoring: exhaustive small-model (DOM enumeration) oracle with credited-semantics fixed point over compiled outputs"),
 "C13": dict(engine="vw+vp+strace",
   text="(a) reference-model monitor: vp/model/imports.py (the documented search: importing file's directory then load paths in order; literal+partial for explicit extensions; import-only files for @import; .sass/.scss then .css then index files; extension appended to the whole basename) must select the file whose self-naming marker reaches the output, or both must fail; (b) offline checker of the Fs call trace recorded by the harness' in-memory Fs: every is_file/is_dir target is a candidate of that search and only the entry and the chosen file are read; (c) isolation: the worker's real working directory is populated with decoys that would win if the real disk were consulted; (d) plain-CSS imports emitted without touching the Fs; (e) a missing import is an error located at the import site; thorough adds strace on a batch (no file syscall during compilations)",
   note="ambiguous layouts are not generated (excluded by the quantifier); virtual paths are relative so that real-disk decoys in the cwd are meaningful",
   technique="runtime monitoring: reference-model oracle + offline event-log (Fs trace) confinement checker + real-disk decoys; strace in thorough tier"),
 "C12": dict(engine="vw+vp",
   text="reference-model monitor: vp/model/modules.py (module cache keyed by canonical path, execution after the module's own @use/@forward rules, CSS emitted once in dependency order, namespace-only and public-only visibility, @forward views with show/hide/prefix, configuration passing with !default, already-loaded and not-configurable errors, loops) predicts for generated in-memory projects the Logger event log of `@debug \"exec <module>\"` lines (each loaded module exactly once, whatever the number of users and URL spellings), the order and multiplicity of module CSS markers, and the value or error class of one probe per compilation (ns.$x, ns.f(), @include ns.m, private and undefined members, assignment through one namespace observed through another); plus a table of sass:math/color/selector/meta functions compared with their global aliases",
   note="error classes only (not wording); projects where two forwarded modules define the same member are outside the judged fragment",
   technique="runtime monitoring: reference-model oracle over Logger event logs, outputs and error classes of generated multi-file projects"),
}

ALL = ["C%02d" % i for i in range(1, 21)]


def main():
    hook = subprocess.run(["git", "-C", "/repo", "log", "--format=%h", "--grep=^verif:"], capture_output=True, text=True).stdout.split()
    checks = []
    for pid in ALL:
        if pid not in CHECKS:
            continue
        c = CHECKS[pid]
        checks.append({
            "property_id": pid,
            "quick_cmd": "./check %s --tier quick" % pid,
            "thorough_cmd": "./check %s --tier thorough" % pid,
            "evidence_file": "/verif/evidence/%s.json" % pid,
            "replay_cmd_template": "./check %s --replay {path}" % pid,
            "engine": c["engine"],
            "level_claimed": {"category": "exploration", "text": c["text"], "design_ref": "DESIGN.md section 4, " + pid},
            "level_note": c["note"],
            "technique": c["technique"],
        })
    for c in checks:
        if c["property_id"] in ADDED:
            c["level_claimed"]["text"] += "; " + ADDED[c["property_id"]]
    m = {
        "version": 1,
        "setup_cmd": "./check --setup",
        "hooks": {
            "guard": "cargo feature `verif` of the grass_compiler crate (off by default; never enabled by the workspace, the grass crate or the test-suite)",
            "enable": "the worker crate /verif/harness depends on grass_compiler by path into /repo/crates/compiler with features=[\"random\",\"custom-builtin-fns\",\"verif\"]; every check rebuilds it with cargo from /repo's current working tree",
            "baseline_off_cmd": "cd /repo && cargo nextest run --workspace --no-fail-fast --offline",
            "source_commits": hook,
            "add_only": True,
        },
        "engines": [{
            "name": "vw+vp",
            "path": "/verif/harness (Rust worker linking the real grass_compiler) + /verif/vp (Python driver, generators, reference models, oracles)",
            "serves_properties": [c["property_id"] for c in checks],
            "kind_free_text": "runtime monitoring: executions of the real code observed through the public API (Fs/Logger trait objects, custom builtin probe), hook counters, sanitizer/Miri builds of the same worker",
        }],
        "checks": checks,
        "not_applicable": [{"property_id": p, "reason": "not claimed yet: its monitor is not built in this commit (planned, see DESIGN.md section 4)"} for p in ALL if p not in CHECKS],
        "notes": "Known findings and fixed defects: /verif/known_findings.json. VERIF_SEED / --seed seeds every generator; VERIF_TIER is honoured.",
    }
    json.dump(m, open(os.path.join(V, "MANIFEST.json"), "w"), indent=1)


if __name__ == "__main__":
    main()
