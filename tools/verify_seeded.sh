#!/bin/bash
# usage: tools/verify_seeded.sh Cxx   -- confirm a sub-agent's seeded change (in /tmp/mut/Cxx, deliverables in /tmp/mut/Cxx-out):
# patch applies to a clean worktree state, suite passes with it, demo fails with it and passes on the clean tree.
P="$1"; WT=/tmp/mut/$P; OUT=/tmp/mut/$P-out
export CARGO_NET_OFFLINE=true CARGO_TARGET_DIR=/tmp/mut/$P-target
cd $WT || exit 2
git diff > /tmp/mut/$P.actual.diff
if ! diff -q /tmp/mut/$P.actual.diff $OUT/patch.diff >/dev/null; then echo "NOTE: worktree diff differs from patch.diff (using worktree state; refreshing patch.diff)"; cp /tmp/mut/$P.actual.diff $OUT/patch.diff; fi
echo "patch: $(grep -c '^[+-][^+-]' $OUT/patch.diff) changed lines in $(grep -c '^diff ' $OUT/patch.diff) file(s)"
cargo nextest run --workspace --no-fail-fast --offline 2>&1 | grep -E "Summary|FAIL" | sort | uniq | head -5
cargo build --offline -q -p grass --bin grass 2>&1 | grep -E "^error" | head -3
( cd /repo && CARGO_TARGET_DIR=/repo/target cargo build --offline -q -p grass --bin grass 2>/dev/null )
if [ -f $OUT/demo/demo.sh ]; then
  ( cd $OUT/demo && bash demo.sh $CARGO_TARGET_DIR/debug/grass >/tmp/mut/$P.demo.mut 2>&1; echo "demo with patch: exit $?" )
  ( cd $OUT/demo && bash demo.sh /repo/target/debug/grass >/tmp/mut/$P.demo.clean 2>&1; echo "demo on clean tree: exit $?" )
elif [ -f $OUT/demo/run.sh ]; then
  # demonstration is an integration test: run.sh <worktree> copies demo.rs into crates/lib/tests and runs it
  sh $OUT/demo/run.sh $WT > /tmp/mut/$P.demo.mut 2>&1; echo "demo (integration test via run.sh) with patch: exit $?"
  git apply -R $OUT/patch.diff
  sh $OUT/demo/run.sh $WT > /tmp/mut/$P.demo.clean 2>&1; echo "demo on clean tree: exit $?"
  git apply $OUT/patch.diff
else
  echo "no demo.sh (files: $(ls $OUT/demo))"
fi
