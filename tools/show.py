#!/usr/bin/env python3
"""Print the replay files of a property (sig + minimal view of the witness)."""
import glob, json, sys
for f in sorted(glob.glob('/verif/replay/%s/*.json' % sys.argv[1])):
    d = json.load(open(f))
    print("==", f.split('/')[-1], d['sig'][:120].replace('\n', ' '))
    print("   ", d['msg'][:300].replace('\n', ' '))
    r = d['replay']
    s = r.get('spec', r)
    print("   ", json.dumps({k: v for k, v in s.items() if k in ('text', 'files', 'syntax', 'entry', 'style')}, ensure_ascii=False)[:int(sys.argv[2]) if len(sys.argv) > 2 else 500])
