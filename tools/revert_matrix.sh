#!/bin/bash
# Self-validation: every check must report a VIOLATION when the fix of the defect it found is reverted.
# usage: tools/revert_matrix.sh > file
cd "$(dirname "$0")/.."
while read commit prop; do
  [ -z "$commit" ] && continue
  s=$(date +%s)
  out=$(tools/mutant.sh revert:$commit $prop quick 0 2>&1)
  rc=$(echo "$out" | grep -o '^exit=[0-9]*' | head -1)
  rp=$(echo "$out" | grep '^replay on' | sed -E 's/replay on (changed|unchanged) tree: exit=([0-9]).*/\1=\2/' | tr '\n' ' ')
  nv=$(echo "$out" | grep -c '^VIOLATION')
  first=$(echo "$out" | grep -A1 '^VIOLATION' | sed -n 2p | cut -c1-150)
  echo "revert:$commit $prop $rc violations=$nv replay[$rp] wall=$(( $(date +%s) - s ))s | $first"
done <<LIST
a4435b0 C01
6f00cc3 C02
25e3f9e C03
4806be1 C04
83d988e C05
6939f41 C06
17b45f6 C07
25287c2 C09
8a67a92 C10
313e89b C11
088b0d8 C12
42502b4 C13
9b6f812 C14
4b056d9 C15
fbfc604 C16
1f76e3e C17
a8194b1 C18
8c3e854 C19
1d0c48a C20
LIST
