#!/bin/bash
# usage: tools/keep_seeded.sh Cxx "<detected-by / notes>"  -- store a confirmed seeded change under /verif/seeded/Cxx/ and drop the scratch worktree
P="$1"; NOTE="$2"; OUT=/tmp/mut/$P-out; DST=/verif/seeded/$P
mkdir -p $DST/demo
cp $OUT/patch.diff $DST/patch.diff
cp -r $OUT/demo/. $DST/demo/ 2>/dev/null
python3 - "$P" "$NOTE" <<'PY'
import json,sys
p,note=sys.argv[1],sys.argv[2]
try: m=json.load(open('/tmp/mut/%s-out/meta.json'%p))
except Exception: m={"property":p}
m["property"]=p.split("-")[-1]
m["confirmed_by_me"]=open('/tmp/mut/%s.verify.txt'%p).read().strip().split("\n") if __import__('os').path.exists('/tmp/mut/%s.verify.txt'%p) else []
m["detection"]=note
json.dump(m, open('/verif/seeded/%s/meta.json'%p,'w'), indent=1)
PY
git -C /repo worktree remove --force /tmp/mut/$P 2>/dev/null
rm -rf /tmp/mut/$P-target /tmp/mut/$P-out
echo kept $P
