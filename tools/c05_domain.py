#!/usr/bin/env python3
"""One-off helper: list golden-corpus test! items on which the C05 checks do not pass, with the reason, so the
domain-exclusion list (vp/c05_domain_exclusions.json) can be reviewed by hand. Never run by a check."""
import json, sys, os
sys.path.insert(0, os.path.dirname(os.path.dirname(os.path.abspath(__file__))))
from vp import build, core, corpus
from vp.props import c05
bins = {"R": build.build_worker("R")}
sh = core.Shard("C05", "quick", 0, 0, 1, bins, 10**6, {})
sh.MAX_VIOL = 10**6
items = [it for it in corpus.items() if it["kind"] == "test" and not it["ignored"] and "random(" not in it["input"] and "unique-id" not in it["input"]]
for i in range(0, len(items), 16):
    c05.run_cases(sh, [(it["input"], it["spec"].get("syntax") or "scss", it["file"] + "::" + it["name"]) for it in items[i:i + 16]])
sh.close()
out = {}
for sig, v in sh.violations.items():
    src = v["facts"]["source"]
    out.setdefault(src, set()).add(sig.split(":")[0] + (":" + v["facts"].get("reparse_as", "") if "reparse_as" in v["facts"] else ""))
    out.setdefault(src + "#detail", v["msg"][-260:])
res = {}
for k in sorted(k for k in out if not k.endswith("#detail")):
    res[k] = {"why": sorted(out[k]), "detail": out[k + "#detail"]}
json.dump(res, open("/tmp/c05_domain.json", "w"), indent=1, ensure_ascii=False)
print(len(res))
