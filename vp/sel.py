"""Independent selector engine: Selectors-4 parser for the subset grass accepts, specificity, DOM enumeration
(all ordered forests with <= N elements, labelled over the features a case mentions) and a bit-parallel matcher.

DOM truth is the oracle for C10 / C11: for a forest shape with n nodes and L labelings per node, the index space of all
L^n labelled DOMs is a Python big integer; `match(selector)[node]` is the set of DOMs (bits) in which `node` matches.
"""
import itertools


class SelError(Exception):
    pass


# ---------------------------------------------------------------- AST + parser
# selector list: [complex]; complex: [(combinator, compound)] with combinator in None ' ' '>' '+' '~'
# compound: [simple]; simple: ('type', n) ('univ',) ('class', n) ('id', n) ('attr', text) ('pc', name, arg|None)
#           ('pe', name) ('ph', name)   where arg is ('sel', selector list) | ('raw', text)

SELECTOR_PSEUDOS = {"not", "is", "matches", "where", "any", "-moz-any", "-webkit-any", "has", "host", "host-context", "slotted", "current"}


class Parser:
    def __init__(self, text):
        self.s = text
        self.i = 0

    def peek(self):
        return self.s[self.i] if self.i < len(self.s) else ""

    def ws(self):
        had = False
        while self.peek() and self.peek() in " \t\n\r\f":
            self.i += 1
            had = True
        return had

    def ident(self):
        j = self.i
        out = []
        while j < len(self.s):
            c = self.s[j]
            if c.isalnum() or c in "-_" or ord(c) > 127:
                out.append(c)
                j += 1
            elif c == "\\" and j + 1 < len(self.s):
                out.append(self.s[j:j + 2])
                j += 2
            else:
                break
        if j == self.i:
            raise SelError("expected identifier at %d in %r" % (self.i, self.s))
        self.i = j
        return "".join(out)

    def selector_list(self, stop=""):
        out = []
        while True:
            self.ws()
            out.append(self.complex(stop))
            self.ws()
            if self.peek() == ",":
                self.i += 1
                continue
            break
        return out

    def complex(self, stop):
        parts = []
        comb = None
        self.ws()
        while True:
            c = self.peek()
            if c == "" or c == "," or (c and c in stop):
                break
            if c in ">+~":
                if comb not in (None, " "):
                    raise SelError("doubled combinator")
                if not parts and comb is None:
                    raise SelError("leading combinator")
                comb = c
                self.i += 1
                self.ws()
                continue
            cp = self.compound()
            parts.append((comb if parts else None, cp))
            comb = " " if self.ws() else None
            if comb is None:
                c2 = self.peek()
                if c2 in ">+~":
                    continue
                if c2 == "" or c2 == "," or (c2 and c2 in stop):
                    break
                raise SelError("unexpected %r" % c2)
        if comb in (">", "+", "~"):
            raise SelError("trailing combinator")
        if not parts:
            raise SelError("empty selector")
        return parts

    def compound(self):
        out = []
        while True:
            c = self.peek()
            if c == "*":
                self.i += 1
                out.append(("univ",))
            elif c == ".":
                self.i += 1
                out.append(("class", self.ident()))
            elif c == "#":
                self.i += 1
                out.append(("id", self.ident()))
            elif c == "%":
                self.i += 1
                out.append(("ph", self.ident()))
            elif c == "[":
                j = self.s.index("]", self.i)
                out.append(("attr", "".join(self.s[self.i:j + 1].split())))
                self.i = j + 1
            elif c == ":":
                self.i += 1
                pe = False
                if self.peek() == ":":
                    self.i += 1
                    pe = True
                name = self.ident()
                arg = None
                if self.peek() == "(":
                    self.i += 1
                    if name.lower() in SELECTOR_PSEUDOS and not pe:
                        sub = Parser(self.s)
                        sub.i = self.i
                        sl = sub.selector_list(stop=")")
                        self.i = sub.i
                        if self.peek() != ")":
                            raise SelError("expected )")
                        self.i += 1
                        arg = ("sel", sl)
                    else:
                        depth = 1
                        j = self.i
                        while j < len(self.s) and depth:
                            if self.s[j] == "(":
                                depth += 1
                            elif self.s[j] == ")":
                                depth -= 1
                            j += 1
                        arg = ("raw", " ".join(self.s[self.i:j - 1].split()))
                        self.i = j
                if pe or name.lower() in ("before", "after", "first-line", "first-letter"):
                    out.append(("pe", name.lower() + ("(%s)" % arg[1] if arg else "")))
                else:
                    out.append(("pc", name.lower(), arg))
            elif c and (c.isalpha() or c in "_-\\" or ord(c) > 127):
                if out:
                    raise SelError("type selector not first")
                out.append(("type", self.ident()))
            else:
                break
        if not out:
            raise SelError("expected compound at %d in %r" % (self.i, self.s))
        return out


def parse(text):
    p = Parser(text.strip())
    sl = p.selector_list()
    p.ws()
    if p.i != len(p.s):
        raise SelError("trailing text %r" % p.s[p.i:])
    return sl


def to_text(sl):
    return ", ".join(complex_text(c) for c in sl)


def complex_text(cx):
    out = ""
    for comb, cp in cx:
        if comb == " ":
            out += " "
        elif comb:
            out += " %s " % comb
        out += "".join(simple_text(s) for s in cp)
    return out


def simple_text(s):
    k = s[0]
    if k == "type":
        return s[1]
    if k == "univ":
        return "*"
    if k == "class":
        return "." + s[1]
    if k == "id":
        return "#" + s[1]
    if k == "ph":
        return "%" + s[1]
    if k == "attr":
        return s[1]
    if k == "pe":
        return "::" + s[1]
    if k == "pc":
        if s[2] is None:
            return ":" + s[1]
        if s[2][0] == "sel":
            return ":%s(%s)" % (s[1], to_text(s[2][1]))
        return ":%s(%s)" % (s[1], s[2][1])
    raise ValueError(k)


# ---------------------------------------------------------------- specificity

def specificity(cx):
    a = b = c = 0
    for _, cp in cx:
        for s in cp:
            x, y, z = simple_spec(s)
            a, b, c = a + x, b + y, c + z
    return (a, b, c)


def simple_spec(s):
    k = s[0]
    if k == "id":
        return (1, 0, 0)
    if k in ("class", "attr", "ph"):
        return (0, 1, 0)
    if k in ("type", "pe"):
        return (0, 0, 1)
    if k == "univ":
        return (0, 0, 0)
    if k == "pc":
        if s[2] is not None and s[2][0] == "sel":
            if s[1] == "where":
                return (0, 0, 0)
            return max(specificity(c) for c in s[2][1])
        return (0, 1, 0)
    return (0, 0, 0)


# ---------------------------------------------------------------- features / labelings

def atoms_of(sl, acc=None):
    """collect the features a selector list mentions: types, ids, pseudo-elements (exclusive choices) and booleans"""
    if acc is None:
        acc = {"type": set(), "id": set(), "pe": set(), "bool": set()}
    for cx in sl:
        for _, cp in cx:
            for s in cp:
                k = s[0]
                if k == "type":
                    acc["type"].add(s[1].lower())
                elif k == "id":
                    acc["id"].add(s[1])
                elif k == "pe":
                    acc["pe"].add(s[1])
                elif k in ("class", "attr"):
                    acc["bool"].add(simple_text(s))
                elif k == "ph":
                    pass      # no element natively matches a placeholder (only through @extend credit)
                elif k == "pc":
                    if s[2] is not None and s[2][0] == "sel" and s[1] in ("not", "is", "matches", "where", "any", "-moz-any", "-webkit-any"):
                        atoms_of(s[2][1], acc)
                    else:
                        acc["bool"].add(simple_text(s))
    return acc


SHAPES = {}


def shapes(n):
    """all ordered forests with exactly n nodes as parent arrays (nodes numbered in document order); plus prev-sibling arrays"""
    if n in SHAPES:
        return SHAPES[n]
    out = []

    def rec(parents):
        k = len(parents)
        if k == n:
            out.append(tuple(parents))
            return
        # the new node (document order) can be a child of the last node or of any ancestor of it, or a new root
        cand = [-1]
        p = k - 1
        chain = []
        while p >= 0:
            chain.append(p)
            p = parents[p]
        for c in chain:
            cand.append(c)
        for c in cand:
            rec(parents + [c])
    rec([-1]) if n >= 1 else out.append(())
    res = []
    for par in out:
        prev = []
        for i, p in enumerate(par):
            sib = [j for j in range(i) if par[j] == p]
            prev.append(sib)
        res.append((par, prev))
    SHAPES[n] = res
    return res


class Universe:
    """all labelled DOMs of one forest shape over one feature alphabet"""

    def __init__(self, atoms, parents, prev_sibs):
        self.types = sorted(atoms["type"])
        self.ids = sorted(atoms["id"])
        self.pes = sorted(atoms["pe"])
        self.bools = sorted(atoms["bool"])
        self.parents = parents
        self.prev = prev_sibs
        self.n = len(parents)
        self.nt, self.ni, self.npe, self.nb = len(self.types) + 1, len(self.ids) + 1, len(self.pes) + 1, len(self.bools)
        self.L = self.nt * self.ni * self.npe * (1 << self.nb)
        self.bits = self.L ** self.n
        self.ALL = (1 << self.bits) - 1
        self._atom = {}

    def label_sets(self, pred):
        return [l for l in range(self.L) if pred(self.decode(l))]

    def decode(self, l):
        t = l % self.nt
        l //= self.nt
        i = l % self.ni
        l //= self.ni
        pe = l % self.npe
        l //= self.npe
        return t, i, pe, l

    def node_mask(self, p, labels):
        """DOMs in which node p's labeling is in `labels`"""
        block = self.L ** p
        inner = (1 << block) - 1
        one = 0
        for l in labels:
            one |= inner << (l * block)
        period = block * self.L
        reps = self.L ** (self.n - p - 1)
        rep = ((1 << (period * reps)) - 1) // ((1 << period) - 1)
        return one * rep

    def atom(self, s, p):
        key = (s, p)
        m = self._atom.get(key)
        if m is not None:
            return m
        k = s[0]
        if k == "type":
            idx = self.types.index(s[1].lower())
            labels = self.label_sets(lambda d: d[0] == idx)
        elif k == "id":
            idx = self.ids.index(s[1])
            labels = self.label_sets(lambda d: d[1] == idx)
        elif k == "pe":
            idx = self.pes.index(s[1])
            labels = self.label_sets(lambda d: d[2] == idx)
        else:
            b = self.bools.index(simple_text(s))
            labels = self.label_sets(lambda d: (d[3] >> b) & 1)
        m = self.node_mask(p, labels)
        self._atom[key] = m
        return m

    def ancestors(self, e):
        out = []
        p = self.parents[e]
        while p >= 0:
            out.append(p)
            p = self.parents[p]
        return out

    # -- matching: mask of DOMs in which element e matches
    def match_all(self, sl, credit=None):
        """list (one mask per node) for a selector list; memoised per (credit object, complex selector text)"""
        out = [0] * self.n
        for cx in sl:
            row = self.match_complex_all(cx, credit)
            for x in range(self.n):
                out[x] |= row[x]
        return out

    def match_list(self, sl, e, credit=None):
        return self.match_all(sl, credit)[e]

    def match_complex_all(self, cx, credit=None):
        key = (id(credit) if credit is not None else 0, _freeze(cx))
        cache = self.__dict__.setdefault("_mc", {})
        if credit is None or credit.get("__frozen__"):
            hit = cache.get(key)
            if hit is not None:
                return hit
        prev_row = None
        n = self.n
        for i, (comb, cp) in enumerate(cx):
            row = [0] * n
            for x in range(n):
                cm = self.match_compound(cp, x, credit)
                if cm == 0:
                    continue
                if i == 0:
                    row[x] = cm
                    continue
                if comb == " ":
                    r = 0
                    for a in self.ancestors(x):
                        r |= prev_row[a]
                elif comb == ">":
                    p = self.parents[x]
                    r = prev_row[p] if p >= 0 else 0
                elif comb == "+":
                    r = prev_row[self.prev[x][-1]] if self.prev[x] else 0
                elif comb == "~":
                    r = 0
                    for sb in self.prev[x]:
                        r |= prev_row[sb]
                else:
                    raise SelError("combinator %r" % comb)
                row[x] = cm & r
            prev_row = row
        if credit is None or credit.get("__frozen__"):
            cache[key] = prev_row
        return prev_row

    def match_complex(self, cx, e, credit=None):
        return self.match_complex_all(cx, credit)[e]

    def match_compound(self, cp, x, credit=None):
        m = self.ALL
        for s in cp:
            m &= self.match_simple(s, x, credit)
            if not m:
                break
        return m

    def match_simple(self, s, x, credit=None):
        k = s[0]
        if k == "univ":
            return self.ALL
        if k == "pc" and s[2] is not None and s[2][0] == "sel":
            nm = s[1]
            if nm == "not":
                return self.ALL & ~self.match_list(s[2][1], x, credit)
            if nm in ("is", "matches", "where", "any", "-moz-any", "-webkit-any"):
                return self.match_list(s[2][1], x, credit)
        base = 0 if k == "ph" else self.atom(s, x)
        if credit is not None:
            extra = credit.get((simple_text(s), x))
            if extra:
                base |= extra
        return base

    def witness(self, mask):
        """decode the lowest set bit into a concrete DOM description"""
        if not mask:
            return None
        idx = (mask & -mask).bit_length() - 1
        nodes = []
        for p in range(self.n):
            l = idx % self.L
            idx //= self.L
            t, i, pe, b = self.decode(l)
            nodes.append({
                "parent": self.parents[p],
                "type": self.types[t] if t < len(self.types) else "other",
                "id": self.ids[i] if i < len(self.ids) else None,
                "pseudo_element": self.pes[pe] if pe < len(self.pes) else None,
                "features": [self.bools[j] for j in range(self.nb) if (b >> j) & 1],
            })
        return nodes


def _freeze(x):
    if isinstance(x, (list, tuple)):
        return tuple(_freeze(i) for i in x)
    return x


def universes(atoms, max_nodes=3, max_bits=8_000_000):
    """Universe objects for all forest shapes with 1..max_nodes nodes (skipping those whose index space is too large)"""
    out = []
    for n in range(1, max_nodes + 1):
        for par, prev in shapes(n):
            u = Universe(atoms, par, prev)
            if u.bits <= max_bits:
                out.append(u)
    return out


def subset_violation(us, sl_small, sl_big, credit_small=None, credit_big=None):
    """find a DOM/element where sl_small matches but sl_big does not. Returns (universe, element, witness) or None"""
    for u in us:
        ra = u.match_all(sl_small, credit_small(u) if credit_small else None)
        if not any(ra):
            continue
        rb = u.match_all(sl_big, credit_big(u) if credit_big else None)
        for e in range(u.n):
            bad = ra[e] & ~rb[e]
            if bad:
                return u, e, u.witness(bad)
    return None
