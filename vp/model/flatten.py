"""Reference flattener for nesting, `&`, @at-root and bubbling at-rules (C04), written from the reference
semantics that grass targets (dart-sass 1.5x): an output tree is built node by node; nested style rules and bubbling
at-rules are attached to the nearest ancestor that is not a style rule (and, for @media that merges with the
enclosing query list, outside that @media); when that ancestor already has a following visible sibling a childless
copy of it is appended and used instead; a style rule's own declarations always go to the rule node created for it.

Input: statement lists of vp.gen.ast `S` objects with kinds rule / decl / nested / media / supports / unknown / atroot.
Output: list of blocks (context tuple, selector, [(prop, value)]) like vp.cssread.flatten produces.
"""


class Unsupported(Exception):
    pass


class Node:
    def __init__(self, kind, head=None, sel=None, queries=None):
        self.kind = kind          # root | rule | media | supports | at
        self.head = head          # at-rule text (canonical) for supports/at
        self.sel = sel            # list of complex selectors (each a list of compound strings / combinators)
        self.queries = queries    # media: list of query strings
        self.children = []        # Node | ('decl', prop, value)
        self.parent = None
        self.name = None          # at-rule name for unknown at-rules

    def add(self, child):
        if isinstance(child, Node):
            child.parent = self
        self.children.append(child)

    def copy_without_children(self):
        n = Node(self.kind, self.head, self.sel, self.queries)
        n.name = self.name
        return n

    def has_following_sibling(self):
        p = self.parent
        if p is None:
            return False
        i = p.children.index(self)
        return any(not invisible(s) for s in p.children[i + 1:])


def invisible(n):
    if not isinstance(n, Node):
        return False
    if n.kind == "at" and n.children is None:
        return False
    return all(invisible(c) for c in n.children)


# ---------------------------------------------------------------- selectors
# a complex selector is a list of tokens: compound strings and combinators '>' '+' '~'; `&` appears inside compounds.

def parse_selector_list(text):
    out = []
    for part in text.split(","):
        toks = part.replace(">", " > ").replace("+", " + ").replace("~", " ~ ").split()
        if toks:
            out.append(toks)
    return out


import re as _re
_PSEUDO_PARENT = _re.compile(r"^([^&()]*:(?:not|is|where|matches))\(&\)([^&()]*)$")


def contains_parent(cx):
    return any("&" in t for t in cx)


def resolve(sel_text, parent, implicit_parent=True):
    """parent: list of complex selectors or None. Returns list of complex selectors."""
    child = parse_selector_list(sel_text)
    if parent is None:
        if any(contains_parent(c) for c in child):
            raise Unsupported("top-level &")
        return child
    per_child = []
    for cx in child:
        if not contains_parent(cx):
            if not implicit_parent:
                per_child.append([cx])
            else:
                per_child.append([p + cx for p in parent])
            continue
        news = [[]]
        for tok in cx:
            if "&" not in tok:
                news = [n + [tok] for n in news]
                continue
            m = _PSEUDO_PARENT.match(tok)
            if m:
                # `&` as the whole argument of a selector pseudo-class: replaced by the complete parent list (one
                # result, no cross product)
                news = [n + [m.group(1) + "(" + ", ".join(_cx_text(p) for p in parent) + ")" + m.group(2)] for n in news]
                continue
            if tok.count("&") != 1 or not tok.startswith("&"):
                raise Unsupported("& not leading in compound")
            suffix = tok[1:]
            resolved = []
            for p in parent:
                if suffix:
                    last = p[-1]
                    if last in (">", "+", "~"):
                        raise Unsupported("parent ends with combinator")
                    if suffix[0].isalnum() or suffix[0] in "-_":
                        if last[-1] in ")]":
                            # an identifier suffix cannot be appended to a pseudo with arguments or an attribute
                            # selector (Sass rejects it: "Invalid parent selector"); not judged here
                            raise Unsupported("suffix on non-name simple")
                        # `&-s`: appended to the last simple selector's name
                        resolved.append(p[:-1] + [last + suffix])
                    else:
                        resolved.append(p[:-1] + [last + suffix])
                else:
                    resolved.append(list(p))
            news = [n + r for n in news for r in resolved]
        per_child.append(news)
    # flatten vertically
    out = []
    i = 0
    while any(i < len(l) for l in per_child):
        for l in per_child:
            if i < len(l):
                out.append(l[i])
        i += 1
    return out


def sel_text(sel):
    return ",".join(_cx_text(c) for c in sel)


def _cx_text(cx):
    out = ""
    for t in cx:
        if t in (">", "+", "~"):
            out += t
        else:
            if out and out[-1] not in ">+~":
                out += " "
            out += t
    return out


# ---------------------------------------------------------------- media queries (only conjunctions of features / one type)

def merge_queries(outer, inner):
    """-> merged list, [] if empty, None if unrepresentable. Queries here: 'type', 'type and (f)', '(f) and (g)'."""
    out = []
    for a in outer:
        for b in inner:
            ta, fa = _split_q(a)
            tb, fb = _split_q(b)
            if ta and tb and ta != tb:
                continue
            t = ta or tb
            out.append(" and ".join(([t] if t else []) + fa + fb))
    return out


def _split_q(q):
    parts = [p.strip() for p in q.split(" and ")]
    t = None
    feats = []
    for p in parts:
        if p.startswith("("):
            feats.append(p)
        else:
            t = p
    return t, feats


class Flattener:
    def __init__(self):
        self.root = Node("root")
        self.parent = self.root
        self.style_rule = None             # Node of the enclosing style rule (ignoring @at-root)
        self.at_root_excluding_style_rule = False
        self.media = None                  # current merged query list
        self.media_sources = set()

    def cur_style_rule(self):
        return None if self.at_root_excluding_style_rule else self.style_rule

    def add_child(self, node, through=None):
        parent = self.parent
        if through is not None:
            while through(parent):
                parent = parent.parent
            if parent.has_following_sibling():
                gp = parent.parent
                parent = parent.copy_without_children()
                gp.add(parent)
        parent.add(node)

    def with_parent(self, node, body, through=None):
        self.add_child(node, through)
        old = self.parent
        self.parent = node
        try:
            body()
        finally:
            self.parent = old

    def run(self, stmts, prefix=None):
        for s in stmts:
            self.stmt(s, prefix)

    def stmt(self, s, prefix=None):
        k = s.k
        if k == "decl":
            if self.cur_style_rule() is None and self.parent.kind not in ("at",) and self.parent.kind != "rule":
                raise Unsupported("declaration outside rule")
            name = (prefix + "-" + s.prop) if prefix else s.prop
            self.parent.add(("decl", name, s.text))
        elif k == "nested":
            name = (prefix + "-" + s.prop) if prefix else s.prop
            self.run(s.body, name)
        elif k == "rule":
            if prefix:
                raise Unsupported("rule in nested property")
            sr = self.style_rule
            parent_sel = sr.sel if sr is not None else None
            sel = resolve(s.selector, parent_sel, implicit_parent=not self.at_root_excluding_style_rule)
            node = Node("rule", sel=sel)
            old_sr, old_flag = self.style_rule, self.at_root_excluding_style_rule

            def body():
                self.style_rule = node
                self.at_root_excluding_style_rule = False
                try:
                    self.run(s.body)
                finally:
                    self.style_rule, self.at_root_excluding_style_rule = old_sr, old_flag
            self.with_parent(node, body, through=lambda n: n.kind == "rule")
        elif k == "media":
            queries = [q.strip() for q in s.query.split(",")]
            merged = merge_queries(self.media, queries) if self.media is not None else None
            if merged is not None and not merged:
                return
            use = merged if merged is not None else queries
            sources = (self.media_sources | set(self.media) | set(queries)) if merged is not None else set()
            node = Node("media", queries=use)
            old_media, old_sources = self.media, self.media_sources

            def body():
                self.media, self.media_sources = use, sources
                try:
                    self.in_copy_of_style_rule(s.body)
                finally:
                    self.media, self.media_sources = old_media, old_sources

            def through(n):
                return n.kind == "rule" or (bool(sources) and n.kind == "media" and all(q in sources for q in n.queries))
            self.with_parent(node, body, through=through)
        elif k == "supports":
            node = Node("supports", head="@supports " + s.cond)
            self.with_parent(node, lambda: self.in_copy_of_style_rule(s.body), through=lambda n: n.kind == "rule")
        elif k == "unknown":
            node = Node("at", head="@%s %s" % (s.name, s.params_text))
            node.name = s.name
            self.with_parent(node, lambda: self.in_copy_of_style_rule(s.body), through=lambda n: n.kind == "rule")
        elif k == "atroot":
            self.at_root(s)
        else:
            raise Unsupported(k)

    def in_copy_of_style_rule(self, body):
        sr = self.cur_style_rule()
        if sr is None:
            self.run(body)
        else:
            self.with_parent(sr.copy_without_children(), lambda: self.run(body))

    # -- @at-root
    def excludes(self, query, node):
        """query: None (default: without rule) | ('with'|'without', set(names))"""
        if query is None:
            return node.kind == "rule"
        mode, names = query
        include = mode == "with"
        if "all" in names:
            return not include
        if node.kind == "rule":
            nm = "rule"
        elif node.kind == "media":
            nm = "media"
        elif node.kind == "supports":
            nm = "supports"
        else:
            nm = node.name
        return (nm in names) != include

    def at_root(self, s):
        query = s.q
        included = []
        p = self.parent
        while p.kind != "root":
            if not self.excludes(query, p):
                included.append(p)
            p = p.parent
        root = self.trim_included(included)
        if root is self.parent:
            self.run(s.body)
            return
        inner = included[0].copy_without_children() if included else None
        outer = inner
        for n in included[1:]:
            c = n.copy_without_children()
            c.add(outer)
            outer = c
        if outer is not None:
            root.add(outer)
        new_parent = inner if inner is not None else root
        old_parent, old_flag, old_media, old_sources = self.parent, self.at_root_excluding_style_rule, self.media, self.media_sources
        self.parent = new_parent
        excl_rules = self.excludes_name(query, "rule")
        if excl_rules:
            self.at_root_excluding_style_rule = True
        if self.media is not None and self.excludes_name(query, "media"):
            self.media, self.media_sources = None, set()
        try:
            self.run(s.body)
        finally:
            self.parent, self.at_root_excluding_style_rule, self.media, self.media_sources = old_parent, old_flag, old_media, old_sources

    def excludes_name(self, query, name):
        if query is None:
            return name == "rule"
        mode, names = query
        include = mode == "with"
        if "all" in names:
            return not include
        return (name in names) != include

    def trim_included(self, nodes):
        if not nodes:
            return self.root
        parent = self.parent
        innermost = None
        for i, n in enumerate(nodes):
            while parent is not n:
                innermost = None
                parent = parent.parent
            if innermost is None:
                innermost = i
            parent = parent.parent
        if parent is not self.root:
            return self.root
        root = nodes[innermost]
        del nodes[innermost:]
        return root


def blocks(node, ctx=()):
    out = []
    for c in node.children:
        if not isinstance(c, Node):
            continue
        if c.kind == "rule":
            decls = [(x[1], x[2]) for x in c.children if not isinstance(x, Node)]
            if decls:
                out.append((ctx, sel_text(c.sel), decls))
            # rules never contain rules in the output tree
        else:
            head = "@media " + ", ".join(c.queries) if c.kind == "media" else c.head
            decls = [(x[1], x[2]) for x in c.children if not isinstance(x, Node)]
            if decls:
                out.append((ctx, head, decls))
            out.extend(blocks(c, ctx + (head,)))
    return out


def flatten(prog):
    f = Flattener()
    f.run(prog)
    return blocks(f.root)
