"""Reference interpreter for the modelled Sass core (written from the Sass specification's evaluation rules,
independent of grass). Produces the ordered list of emitted declarations, the ordered list of Logger events
and (for failing programs) the fact that an error is raised.

Scoping follows the reference semantics:
  * a stack of frames; frame 0 is global; style rules, functions, mixins and content blocks push plain scopes,
    @if/@for/@each/@while push *semi-global* scopes (semi-global only while every enclosing scope is);
  * `$x: v` assigns to the innermost frame that already has x; if that frame is the global one and we are not in
    a semi-global scope, a new local is created instead; otherwise the current frame gets it;
  * one scope per loop statement (not per iteration);
  * functions/mixins/content blocks capture the frame list at definition (frames shared by reference).
"""
from . import builtins as B
from . import values as V


class SassError(Exception):
    pass


class Unsupported(Exception):
    """the model does not cover this construct/value: the case is inconclusive, not a verdict"""


class Return(Exception):
    def __init__(self, v):
        self.v = v


class Frame:
    __slots__ = ("vars", "funcs", "mixins", "semi")

    def __init__(self, semi=False):
        self.vars = {}
        self.funcs = {}
        self.mixins = {}
        self.semi = semi


def norm(name):
    return name.replace("_", "-")


class Callable:
    def __init__(self, decl, frames):
        self.decl = decl
        self.frames = frames


class Content:
    def __init__(self, body, using, frames, content):
        self.body = body
        self.using = using
        self.frames = frames
        self.content = content   # the content block in effect where this block was written


def fmt_num(x):
    if x != x:
        return "NaN"
    if x == int(x) and abs(x) < 1e15:
        return str(int(x))
    s = "%.10f" % x
    s = s.rstrip("0").rstrip(".")
    if s in ("-0", ""):
        s = "0"
    return s


def to_css(v, quote=True):
    k = v[0]
    if k == "n":
        return fmt_num(v[1]) + v[2]
    if k == "s":
        if v[2] and quote:
            return _quote(v[1])
        return v[1]
    if k == "b":
        return "true" if v[1] else "false"
    if k == "null":
        return ""
    if k == "l":
        items = [i for i in v[1] if not is_blank(i)]
        if not items and not v[3]:
            raise SassError("() isn't a valid CSS value")
        sep = ", " if v[2] == "comma" else (" / " if v[2] == "slash" else " ")
        body = sep.join(to_css(i, quote) for i in items)
        return "[" + body + "]" if v[3] else body
    if k == "m":
        raise SassError("map isn't a valid CSS value")
    raise Unsupported(k)


def _quote(t):
    if '"' in t and "'" not in t:
        return "'" + t.replace("\\", "\\\\") + "'"
    return '"' + t.replace("\\", "\\\\").replace('"', '\\"') + '"'


def is_blank(v):
    if v[0] == "null":
        return True
    if v[0] == "s" and not v[2] and v[1] == "":
        return True
    if v[0] == "l" and not v[3]:
        return all(is_blank(i) for i in v[1])
    return False


def inspect(v):
    k = v[0]
    if k == "null":
        return "null"
    if k == "s":
        return _quote(v[1]) if v[2] else v[1]
    if k == "l":
        items, sep, br = v[1], v[2], v[3]
        if not items:
            return "[]" if br else "()"
        single = len(items) == 1 and sep in ("comma", "slash")
        parts = []
        for i in items:
            t = inspect(i)
            if i[0] == "l" and len(i[1]) >= 2 and not i[3]:
                isep = i[2]
                need = (isep == "comma") if sep == "comma" else ((isep in ("comma", "slash")) if sep == "slash" else (isep != "undecided"))
                if need:
                    t = "(" + t + ")"
            if i[0] == "l" and not i[1] and not i[3]:
                t = "()"
            parts.append(t)
        body = (", " if sep == "comma" else (" / " if sep == "slash" else " ")).join(parts)
        if single:
            body = body + ("," if sep == "comma" else "/")
            if not br:
                body = "(" + body + ")"
        return "[" + body + "]" if br else body
    if k == "m":
        def kv(x):
            t = inspect(x)
            if x[0] == "l" and len(x[1]) >= 2 and x[2] == "comma" and not x[3]:
                t = "(" + t + ")"
            return t
        return "(" + ", ".join("%s: %s" % (kv(a), kv(b)) for a, b in v[1]) + ")"
    return to_css(v)


def truthy(v):
    return not (v[0] == "null" or (v[0] == "b" and not v[1]))


class Interp:
    MAX_STEPS = 20000

    def __init__(self):
        self.frames = [Frame(semi=True)]
        self.decls = []        # (selector, prop, value text)
        self.log = []          # (kind, message, stmt)
        self.selector = None
        self.content = None
        self.steps = 0
        self.in_function = 0
        self.warned = set()
        self.deferred = None     # error raised only when the CSS tree is serialized

    # ---------------------------------------------------------------- environment
    def lookup(self, name):
        name = norm(name)
        for f in reversed(self.frames):
            if name in f.vars:
                return f.vars[name]
        raise SassError("Undefined variable $" + name)

    def semi_global(self):
        return all(f.semi for f in self.frames)

    def assign(self, name, value, glob=False, default=False):
        name = norm(name)
        if glob or len(self.frames) == 1:
            target = self.frames[0]
            if default and name in target.vars and target.vars[name][0] != "null":
                return
            target.vars[name] = value
            return
        idx = None
        for i in range(len(self.frames) - 1, -1, -1):
            if name in self.frames[i].vars:
                idx = i
                break
        if default and idx is not None and self.frames[idx].vars[name][0] != "null":
            return
        if idx is None:
            idx = len(self.frames) - 1
        elif idx == 0 and not self.semi_global():
            idx = len(self.frames) - 1
        self.frames[idx].vars[name] = value

    def find_callable(self, kind, name):
        name = norm(name)
        for f in reversed(self.frames):
            d = (f.funcs if kind == "func" else f.mixins).get(name)
            if d is not None:
                return d
        return None

    def scope(self, semi=False):
        f = Frame(semi=semi and self.semi_global())
        self.frames.append(f)
        return f

    # ---------------------------------------------------------------- expressions
    def tick(self):
        self.steps += 1
        if self.steps > self.MAX_STEPS:
            raise Unsupported("model step budget")

    def ev(self, e):
        self.tick()
        k = e[0]
        if k == "num":
            return ("n", float(e[1]), e[2])
        if k == "str":
            return ("s", e[1], e[2])
        if k == "bool":
            return ("b", e[1])
        if k == "null":
            return V.NULL
        if k == "var":
            return self.lookup(e[1])
        if k == "paren":
            return self.ev(e[1])
        if k == "list":
            items = [self.ev(i) for i in e[1]]
            sep = e[2]
            if len(items) == 0:
                sep = "undecided"
            elif len(items) == 1 and sep != "comma":
                sep = "undecided" if e[3] else sep
            return ("l", items, sep, e[3])
        if k == "map":
            pairs = []
            for a, b in e[1]:
                ka = self.ev(a)
                vb = self.ev(b)
                if any(V.eq(ka, x) for x, _ in pairs):
                    raise SassError("Duplicate key.")
                pairs.append((ka, vb))
            return ("m", pairs)
        if k == "istr":
            out = []
            for p in e[1]:
                if isinstance(p, str):
                    out.append(p)
                else:
                    v = self.ev(p)
                    out.append(to_css(v, quote=False))
            return ("s", "".join(out), True)
        if k == "not":
            return ("b", not truthy(self.ev(e[1])))
        if k == "neg":
            v = self.ev(e[1])
            if v[0] != "n":
                raise Unsupported("unary minus on non-number")
            return ("n", -v[1], v[2])
        if k in ("bin", "binraw"):
            return self.binop(e[1], e[2], e[3])
        if k == "call":
            return self.call(e)
        raise Unsupported(k)

    def binop(self, op, le, re_):
        if op == "and":
            l = self.ev(le)
            return self.ev(re_) if truthy(l) else l
        if op == "or":
            l = self.ev(le)
            return l if truthy(l) else self.ev(re_)
        l, r = self.ev(le), self.ev(re_)
        if op == "==":
            return ("b", V.eq(l, r))
        if op == "!=":
            return ("b", not V.eq(l, r))
        if op in ("<", ">", "<=", ">="):
            if l[0] != "n" or r[0] != "n":
                raise SassError("Undefined operation")
            a, b = self.compat(l, r)
            eq = abs(a - b) < 1e-11
            if op == "<":
                return ("b", a < b and not eq)
            if op == ">":
                return ("b", a > b and not eq)
            if op == "<=":
                return ("b", a < b or eq)
            return ("b", a > b or eq)
        if op == "+":
            if l[0] == "n" and r[0] == "n":
                a, b = self.compat(l, r)
                return ("n", a + b, l[2] or r[2])
            if l[0] == "s":
                out = ("s", l[1] + (r[1] if r[0] == "s" else self.concat_text(r)), l[2])
            elif r[0] == "s":
                out = ("s", self.concat_text(l) + r[1], r[2])
            else:
                out = None
            if out is not None:
                if len(out[1]) > 4000:
                    raise Unsupported("string growth")   # e.g. doubling in a loop: keep the model (and the run) bounded
                return out
            raise Unsupported("+ on %s/%s" % (l[0], r[0]))
        if op == "-":
            if l[0] == "n" and r[0] == "n":
                a, b = self.compat(l, r)
                return ("n", a - b, l[2] or r[2])
            raise Unsupported("- on non-numbers")
        if op == "*":
            if l[0] == "n" and r[0] == "n":
                if l[2] and r[2]:
                    raise Unsupported("unit product")
                return ("n", l[1] * r[1], l[2] or r[2])
            raise SassError("Undefined operation")
        if op == "%":
            if l[0] == "n" and r[0] == "n":
                a, b = self.compat(l, r)
                if b == 0:
                    raise Unsupported("modulo zero")
                m = a % b   # Python: sign of the divisor, as Sass
                return ("n", m, l[2] or r[2])
            raise SassError("Undefined operation")
        raise Unsupported(op)

    def concat_text(self, v):
        if v[0] in ("m",):
            raise SassError("map isn't a valid CSS value")
        if v[0] == "null":
            return ""
        return to_css(v, quote=True)

    def compat(self, l, r):
        if l[2] and r[2] and l[2] != r[2]:
            raise SassError("Incompatible units")
        return l[1], r[1]

    BUILTINS = {
        "length": (B.length, 1), "nth": (B.nth, 2), "map-get": (B.map_get, 2), "map-has-key": (B.map_has_key, 2),
        "append": (B.append, 2), "index": (B.index, 2), "str-length": (B.str_length, 1), "map-keys": (B.map_keys, 1),
        "map-values": (B.map_values, 1), "join": (B.join, 2), "unquote": (B.unquote, 1), "quote": (B.quote, 1),
    }

    def call(self, e):
        name, args, kwargs, rest = norm(e[1]), e[2], e[3], e[4]
        fn = self.find_callable("func", name)
        if fn is None:
            if name == "if":
                if len(args) != 3 or kwargs or rest is not None:
                    raise Unsupported("if() shape")
                return self.ev(args[1]) if truthy(self.ev(args[0])) else self.ev(args[2])
            if name == "inspect":
                return ("s", inspect(self.ev(args[0])), False)
            if name == "type-of":
                v = self.ev(args[0])
                return ("s", {"n": "number", "s": "string", "b": "bool", "null": "null", "l": "list", "m": "map"}[v[0]], False)
            if name in self.BUILTINS:
                f, n = self.BUILTINS[name]
                if kwargs or rest is not None or len(args) != n:
                    raise Unsupported("builtin call shape")
                vals = [self.ev(a) for a in args]
                try:
                    return f(*vals)
                except B.SassErr as ex:
                    raise SassError(str(ex))
            raise Unsupported("unknown function " + name)
        pos = [self.ev(a) for a in args]
        named = [(norm(n), self.ev(v)) for n, v in kwargs]
        if rest is not None:
            rv = self.ev(rest)
            if rv[0] == "m":
                for kk, vv in rv[1]:
                    if kk[0] != "s":
                        raise SassError("Variable keyword argument map must have string keys")
                    named.append((norm(kk[1]), vv))
            else:
                pos.extend(V.as_list(rv))
        return self.invoke(fn, pos, named, is_func=True)

    def bind(self, decl_params, rest_name, pos, named, what):
        """bind arguments in the *current* (callee) frame; defaults are evaluated there, left to right"""
        frame = self.frames[-1]
        params = [(norm(n), d) for n, d in decl_params]
        names = [n for n, _ in params]
        if len(pos) > len(params) and not rest_name:
            raise SassError("Only %d arguments allowed, but %d were passed." % (len(params), len(pos)))
        named = list(named)
        seen = set()
        for n, _ in named:
            if n in seen:
                raise SassError("duplicate named argument")
            seen.add(n)
        for i, (n, d) in enumerate(params):
            if i < len(pos):
                if n in seen:
                    raise SassError("Argument $%s was passed both by position and by name." % n)
                frame.vars[n] = pos[i]
            elif n in seen:
                frame.vars[n] = [v for k, v in named if k == n][0]
            elif d is not None:
                frame.vars[n] = self.ev(d)
            else:
                raise SassError("Missing argument $%s." % n)
        extra_named = [(k, v) for k, v in named if k not in names]
        if rest_name:
            frame.vars[norm(rest_name)] = ("l", pos[len(params):], "comma" if len(pos) - len(params) != 0 or True else "undecided", False)
            if extra_named:
                raise Unsupported("keyword rest arguments")
        elif extra_named:
            raise SassError("No argument named $%s." % extra_named[0][0])

    def invoke(self, fn, pos, named, is_func):
        self.tick()
        decl = fn.decl
        saved = self.frames
        saved_content = self.content
        self.frames = list(fn.frames)
        self.scope(semi=False)
        try:
            self.bind(decl.params, decl.rest, pos, named, decl.name)
            if is_func:
                self.in_function += 1
                try:
                    self.run(decl.body)
                except Return as r:
                    return r.v
                finally:
                    self.in_function -= 1
                raise SassError("Function finished without @return.")
            self.run(decl.body)
            return None
        finally:
            self.frames = saved
            self.content = saved_content

    # ---------------------------------------------------------------- statements
    def run(self, body):
        for s in body:
            self.stmt(s)

    def stmt(self, s):
        self.tick()
        k = s.k
        if k == "decl":
            v = self.ev(s.expr)
            if self.selector is None:
                raise SassError("Declarations may only be used within style rules.")
            if is_blank(v) and not (v[0] == "l" and v[3]):
                if v[0] == "l" and not v[1]:
                    # rejected by the serializer, i.e. after evaluation has finished
                    self.deferred = self.deferred or "() isn't a valid CSS value"
                return
            try:
                self.decls.append((self.selector, s.prop, to_css(v)))
            except SassError as e:
                self.deferred = self.deferred or str(e)
        elif k == "var":
            if s.default:
                # value is only evaluated when needed
                name = norm(s.name)
                for f in reversed(self.frames):   # the guard uses the ordinary variable lookup
                    if name in f.vars:
                        if f.vars[name][0] != "null":
                            return
                        break
            self.assign(s.name, self.ev(s.expr), glob=s.glob, default=False)
        elif k == "rule":
            if self.selector is not None:
                raise Unsupported("nested rules are C04's subject")
            if self.in_function:
                raise SassError("rule in function")
            self.selector = s.selector
            self.scope(semi=False)
            try:
                self.run(s.body)
            finally:
                self.frames.pop()
                self.selector = None
        elif k == "if":
            for cond, body in s.clauses:
                if truthy(self.ev(cond)):
                    self.scope(semi=True)
                    try:
                        self.run(body)
                    finally:
                        self.frames.pop()
                    return
            if s.els is not None:
                self.scope(semi=True)
                try:
                    self.run(s.els)
                finally:
                    self.frames.pop()
        elif k == "for":
            a, b = self.ev(s.frm), self.ev(s.to)
            if a[0] != "n" or b[0] != "n":
                raise SassError("not a number")
            fa, fb = a[1], b[1]
            if fa != int(fa) or fb != int(fb):
                raise SassError("not an integer")
            fa, fb = int(fa), int(fb)
            step = 1 if fa <= fb else -1
            if s.through:
                fb += step
            self.scope(semi=True)
            try:
                i = fa
                while i != fb:
                    self.frames[-1].vars[norm(s.var)] = ("n", float(i), a[2])
                    self.run(s.body)
                    i += step
            finally:
                self.frames.pop()
        elif k == "each":
            lst = self.ev(s.expr)
            items = V.as_list(lst)
            self.scope(semi=True)
            try:
                for it in items:
                    if len(s.vars) == 1:
                        self.frames[-1].vars[norm(s.vars[0])] = it
                    else:
                        parts = V.as_list(it)
                        for j, vn in enumerate(s.vars):
                            self.frames[-1].vars[norm(vn)] = parts[j] if j < len(parts) else V.NULL
                    self.run(s.body)
            finally:
                self.frames.pop()
        elif k == "while":
            self.scope(semi=True)
            try:
                while truthy(self.ev(s.cond)):
                    self.run(s.body)
            finally:
                self.frames.pop()
        elif k == "func":
            self.frames[-1].funcs[norm(s.name)] = Callable(s, list(self.frames))
        elif k == "mixin":
            self.frames[-1].mixins[norm(s.name)] = Callable(s, list(self.frames))
        elif k == "return":
            if not self.in_function:
                raise SassError("@return outside function")
            raise Return(self.ev(s.expr))
        elif k == "include":
            mx = self.find_callable("mixin", s.name)
            if mx is None:
                raise SassError("Undefined mixin.")
            pos = [self.ev(a) for a in s.args]
            named = [(norm(n), self.ev(v)) for n, v in s.kwargs]
            if s.rest is not None:
                rv = self.ev(s.rest)
                if rv[0] == "m":
                    raise Unsupported("map rest in include")
                pos.extend(V.as_list(rv))
            content = None
            if s.content is not None:
                content = Content(s.content, s.using or [], list(self.frames), self.content)
            elif False:
                pass
            saved_content = self.content
            saved = self.frames
            self.tick()
            self.frames = list(mx.frames)
            self.scope(semi=False)
            self.content = content
            try:
                self.bind(mx.decl.params, mx.decl.rest, pos, named, s.name)
                self.run(mx.decl.body)
            finally:
                self.frames = saved
                self.content = saved_content
        elif k == "content":
            c = self.content
            if c is None:
                return
            pos = [self.ev(a) for a in s.args]
            saved = self.frames
            saved_content = self.content
            self.frames = list(c.frames)
            self.scope(semi=False)
            self.content = c.content
            try:
                self.bind(c.using, None, pos, [], "@content")
                self.run(c.body)
            finally:
                self.frames = saved
                self.content = saved_content
        elif k == "debug":
            v = self.ev(s.expr)
            self.log.append(("debug", v[1] if v[0] == "s" else inspect(v), s))
        elif k == "warn":
            v = self.ev(s.expr)
            msg = v[1] if v[0] == "s" else to_css(v)
            self.log.append(("warn", msg, s))
        elif k == "error":
            v = self.ev(s.expr)
            raise SassError("@error:" + (inspect(v)))
        else:
            raise Unsupported(k)


def execute(prog):
    """-> dict(status='ok'|'error', decls=[...], log=[...], error=str|None); raises Unsupported"""
    it = Interp()
    try:
        it.run(prog)
    except SassError as e:
        return {"status": "error", "decls": it.decls, "log": it.log, "error": str(e)}
    except RecursionError:
        raise Unsupported("recursion")
    if it.deferred:
        return {"status": "error", "decls": it.decls, "log": it.log, "error": it.deferred}
    return {"status": "ok", "decls": it.decls, "log": it.log, "error": None}
