"""Reference model of Sass import resolution as documented (sass-lang.com: @import / @use "finding the file",
load paths, partials, index files, import-only files). Independent of grass."""
import posixpath

EXTS = (".sass", ".scss", ".css")


def norm(p):
    return posixpath.normpath(p)


def _try(path, files):
    """literal, then partial"""
    d, b = posixpath.split(path)
    cands = [norm(path), norm(posixpath.join(d, "_" + b))]
    for c in cands:
        if c in files:
            return c, cands
    return None, cands


def _try_exts(path, files):
    seen = []
    for e in EXTS:
        hit, c = _try(path + e, files)
        seen += c
        if hit:
            return hit, seen
    return None, seen


def resolve_at(base, files, dirs, for_import):
    """-> (chosen or None, candidates probed or probeable at this location)"""
    cands = []
    ext = posixpath.splitext(base)[1]
    if ext in EXTS:
        if for_import:
            hit, c = _try(base[:-len(ext)] + ".import" + ext, files)
            cands += c
            if hit:
                return hit, cands
        hit, c = _try(base, files)
        cands += c
        return hit, cands
    if for_import:
        hit, c = _try_exts(base + ".import", files)
        cands += c
        if hit:
            return hit, cands
    hit, c = _try_exts(base, files)
    cands += c
    if hit:
        return hit, cands
    # index files
    idx = posixpath.join(base, "index")
    if for_import:
        hit, c = _try_exts(idx + ".import", files)
        cands += c
        if hit and norm(base) in dirs:
            return hit, cands
    hit, c = _try_exts(idx, files)
    cands += c
    if hit and norm(base) in dirs:
        return hit, cands
    return None, cands


def resolve(url, importer, load_paths, files, for_import):
    """files: set of normalised paths. Returns (chosen, all candidate paths, dirs that may be stat'ed)"""
    dirs = set()
    for f in files:
        d = posixpath.dirname(f)
        while d and d not in dirs:
            dirs.add(d)
            d = posixpath.dirname(d)
    dirs.add("")
    locations = []
    if not posixpath.isabs(url):
        locations.append(posixpath.join(posixpath.dirname(importer), url))
    else:
        locations.append(url)
    for lp in load_paths:
        locations.append(posixpath.join(lp, url))
    all_c = []
    stat_dirs = []
    chosen = None
    for base in locations:
        hit, c = resolve_at(base, files, dirs, for_import)
        all_c += c
        stat_dirs.append(norm(base))
        if hit and chosen is None:
            chosen = hit
            break
    # candidates of later locations are legitimate probe targets too only if reached; keep all for confinement
    for base in locations:
        _, c = resolve_at(base, set(), dirs, for_import)
        all_c += c
    return chosen, set(all_c), set(stat_dirs)
