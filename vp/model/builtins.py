"""Reference model of the documented semantics of Sass list/map/string built-ins (sass-lang.com/documentation/modules).
Every function returns a value (vp.model.values) or raises SassErr for a documented argument error."""
from .values import NULL, as_list, eq, lst, mp, num, s, sep_of


class SassErr(Exception):
    pass


def _int(v, what="index"):
    if v[0] != "n":
        raise SassErr(what + " is not a number")
    x = v[1]
    r = round(x)
    if abs(x - r) > 1e-11:
        raise SassErr(what + " is not an integer")
    return int(r)


def _index(v, n, what="n"):
    i = _int(v, what)
    if i == 0:
        raise SassErr("index 0")
    if abs(i) > n:
        raise SassErr("index out of range")
    return i - 1 if i > 0 else n + i


def length(l):
    return num(len(as_list(l)))


def nth(l, n):
    items = as_list(l)
    return items[_index(n, len(items))]


def set_nth(l, n, v):
    items = list(as_list(l))
    items[_index(n, len(items))] = v
    sep = sep_of(l)
    br = l[3] if l[0] == "l" else False
    return lst(items, sep, br)


def _sep_arg(v, allow_auto=True):
    if v[0] != "s":
        raise SassErr("separator must be a string")
    if v[1] not in ("space", "comma", "slash") + (("auto",) if allow_auto else ()):
        raise SassErr("bad separator")
    return v[1]


def join(l1, l2, separator=None, bracketed=None):
    sep = "auto" if separator is None else _sep_arg(separator)
    if sep == "auto":
        s1, s2 = sep_of(l1), sep_of(l2)
        sep = s1 if s1 != "undecided" else (s2 if s2 != "undecided" else "space")
    if bracketed is None or (bracketed[0] == "s" and bracketed[1] == "auto"):
        br = l1[3] if l1[0] == "l" else False
    else:
        br = not (bracketed[0] == "null" or (bracketed[0] == "b" and not bracketed[1]))
    return lst(as_list(l1) + as_list(l2), sep, br)


def append(l, v, separator=None):
    sep = "auto" if separator is None else _sep_arg(separator)
    if sep == "auto":
        sep = sep_of(l) if sep_of(l) != "undecided" else "space"
    br = l[3] if l[0] == "l" else False
    return lst(as_list(l) + [v], sep, br)


def zip_(*ls):
    if not ls:
        return lst([], "comma")
    n = min(len(as_list(l)) for l in ls)
    return lst([lst([as_list(l)[i] for l in ls], "space") for i in range(n)], "comma")


def index(l, v):
    for i, x in enumerate(as_list(l)):
        if eq(x, v):
            return num(i + 1)
    return NULL


def list_separator(l):
    sp = sep_of(l)
    return s("space" if sp == "undecided" else sp, False)


def is_bracketed(l):
    return ("b", l[0] == "l" and l[3])


# ---------------------------------------------------------------- maps

def _map(v, what="map"):
    if v[0] == "m":
        return v
    if v[0] == "l" and not v[1]:
        return mp([])
    raise SassErr(what + " is not a map")


def map_get(m, *keys):
    m = _map(m)
    cur = m
    for i, k in enumerate(keys):
        if cur[0] != "m" and not (cur[0] == "l" and not cur[1]):
            return NULL
        found = None
        for kk, v in _map(cur)[1]:
            if eq(kk, k):
                found = v
                break
        if found is None:
            return NULL
        cur = found
    return cur


def map_has_key(m, *keys):
    m = _map(m)
    cur = m
    for k in keys:
        if cur[0] != "m":
            return ("b", False)
        found = None
        for kk, v in cur[1]:
            if eq(kk, k):
                found = v
                break
        if found is None:
            return ("b", False)
        cur = found
    return ("b", True)


def map_keys(m):
    return lst([k for k, v in _map(m)[1]], "comma")


def map_values(m):
    return lst([v for k, v in _map(m)[1]], "comma")


def _merge(m1, m2):
    out = list(m1[1])
    for k, v in m2[1]:
        for i, (kk, vv) in enumerate(out):
            if eq(kk, k):
                out[i] = (kk, v)
                break
        else:
            out.append((k, v))
    return mp(out)


def _modify(m, keys, fn, add_missing=True):
    """apply fn to the value at nested keys (creating maps on the way)"""
    m = _map(m)
    if not keys:
        return fn(m)
    k = keys[0]
    out = list(m[1])
    for i, (kk, vv) in enumerate(out):
        if eq(kk, k):
            if len(keys) == 1:
                out[i] = (kk, fn(vv))
            else:
                inner = vv if (vv[0] == "m" or (vv[0] == "l" and not vv[1])) else mp([])
                out[i] = (kk, _modify(inner, keys[1:], fn, add_missing))
            return mp(out)
    if not add_missing:
        return m
    if len(keys) == 1:
        out.append((k, fn(None)))
    else:
        out.append((k, _modify(mp([]), keys[1:], fn, add_missing)))
    return mp(out)


def map_merge(m1, *args):
    if not args:
        raise SassErr("missing map2")
    keys, m2 = args[:-1], _map(args[-1], "map2")
    m1 = _map(m1, "map1")
    if not keys:
        return _merge(m1, m2)

    def f(old):
        if old is not None and (old[0] == "m" or (old[0] == "l" and not old[1])):
            return _merge(_map(old), m2)
        return m2
    return _modify(m1, list(keys), f)


def map_remove(m, *keys):
    m = _map(m)
    return mp([(k, v) for k, v in m[1] if not any(eq(k, x) for x in keys)])


def map_set(m, *args):
    if len(args) < 2:
        raise SassErr("expected key and value")
    keys, v = args[:-1], args[-1]
    return _modify(_map(m), list(keys), lambda old: v)


def deep_merge(m1, m2):
    m1, m2 = _map(m1, "map1"), _map(m2, "map2")
    out = list(m1[1])
    for k, v in m2[1]:
        for i, (kk, vv) in enumerate(out):
            if eq(kk, k):
                if (vv[0] == "m" or (vv[0] == "l" and not vv[1])) and (v[0] == "m" or (v[0] == "l" and not v[1])):
                    out[i] = (kk, deep_merge(_map(vv), _map(v)))
                else:
                    out[i] = (kk, v)
                break
        else:
            out.append((k, v))
    return mp(out)


def deep_remove(m, *keys):
    if not keys:
        raise SassErr("missing key")
    m = _map(m)
    cur = m
    for k in keys[:-1]:
        nxt = None
        for kk, vv in cur[1]:
            if eq(kk, k):
                nxt = vv
        if nxt is None or nxt[0] != "m":
            return m
        cur = nxt
    return _modify(m, list(keys[:-1]), lambda old: map_remove(old, keys[-1]), add_missing=False)


# ---------------------------------------------------------------- strings

def _str(v, what="string"):
    if v[0] != "s":
        raise SassErr(what + " is not a string")
    return v


def str_length(v):
    return num(len(_str(v)[1]))


def _cp_index(i, n, for_end):
    """code point offset for a Sass string index (dart-sass _codepointForIndex)"""
    if i == 0:
        return 0
    if i > 0:
        return min(i - 1, n)
    r = n + i
    if r < 0 and not for_end:
        return 0
    return r


def str_slice(v, start, end=None):
    st = _str(v)
    n = len(st[1])
    a = _int(start, "start-at")
    b = _int(end, "end-at") if end is not None else -1
    if b == 0:
        return s("", st[2])
    ia = _cp_index(a, n, False)
    ib = _cp_index(b, n, True)
    if ib == n:
        ib -= 1
    if ib < ia:
        return s("", st[2])
    return s(st[1][ia:ib + 1], st[2])


def str_index(v, sub):
    i = _str(v)[1].find(_str(sub, "substring")[1])
    return NULL if i < 0 else num(i + 1)


def str_insert(v, ins, idx):
    st, it = _str(v), _str(ins, "insert")
    n = len(st[1])
    i = _int(idx, "index")
    if i < 0:
        # -1 appends; clamp at the start
        i = max(n + i + 2, 0)
    pos = _cp_index(i, n, False)
    return s(st[1][:pos] + it[1] + st[1][pos:], st[2])


def quote(v):
    return s(_str(v)[1], True)


def unquote(v):
    return s(_str(v)[1], False)


def _ascii_map(t, up):
    return "".join((c.upper() if up else c.lower()) if ord(c) < 128 else c for c in t)


def to_upper_case(v):
    st = _str(v)
    return s(_ascii_map(st[1], True), st[2])


def to_lower_case(v):
    st = _str(v)
    return s(_ascii_map(st[1], False), st[2])


def split(v, sep, limit=None):
    st, sp = _str(v), _str(sep, "separator")
    lim = None
    if limit is not None and limit[0] != "null":
        lim = _int(limit, "limit")
        if lim < 1:
            raise SassErr("limit must be >= 1")
    text = st[1]
    if text == "":
        return lst([], "comma", True)
    if sp[1] == "":
        parts = list(text)
        if lim is not None and len(parts) > lim + 1:
            parts = parts[:lim] + ["".join(parts[lim:])]
    else:
        parts = text.split(sp[1]) if lim is None else text.split(sp[1], lim)
    return lst([s(p, st[2]) for p in parts], "comma", True)
