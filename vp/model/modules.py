"""Reference model of the Sass module system for generated projects (written from the module-system rules):
a module is executed once per compilation (cache keyed by canonical path), its CSS is emitted once after the CSS of
the modules it loads, members are visible through the namespace only, names starting with `-`/`_` are private,
@forward re-exports members filtered by show/hide and renamed by the prefix, `with` configures only !default
variables of a module that is being loaded for the first time, and load cycles are errors.

A project is {path: ModuleSrc}; see vp/props/c12.py for the generator that prints them.
"""
import posixpath


class ModErr(Exception):
    def __init__(self, cls, msg=""):
        Exception.__init__(self, cls + ": " + msg)
        self.cls = cls


def norm_name(n):
    return n.replace("_", "-")


def is_private(n):
    return n.startswith("-") or n.startswith("_")


class ModuleSrc:
    """source description of one module file"""

    def __init__(self, name):
        self.name = name
        self.uses = []        # (url, namespace | '*' , with_dict or None)
        self.forwards = []    # (url, show(set)|None, hide(set)|None, prefix|None, with_dict or None)
        self.vars = []        # (name, value, is_default)
        self.funcs = []       # (name, return value)
        self.mixins = []      # (name, marker)
        self.marker = None    # css marker value


class Module:
    def __init__(self, src):
        self.src = src
        self.vars = {}        # own variables (normalised name -> value)
        self.configurable = set()
        self.funcs = {}
        self.mixins = {}
        self.forwarded = []   # (Module, show, hide, prefix)

    # member views --------------------------------------------------
    def _filter(self, name, kind, show, hide, prefix):
        """name as seen downstream -> inner name or None"""
        full = name
        if prefix:
            if not name.startswith(prefix):
                return None
            name = name[len(prefix):]
        key = ("$" + full) if kind == "var" else full
        if show is not None and key not in show:
            return None
        if hide is not None and key in hide:
            return None
        return name

    def lookup(self, kind, name):
        """public lookup through the namespace: own members then forwarded ones"""
        name = norm_name(name)
        table = {"var": self.vars, "func": self.funcs, "mixin": self.mixins}[kind]
        if name in table:
            return self, name
        hits = []
        for m, show, hide, prefix in self.forwarded:
            inner = self._filter(name, kind, show, hide, prefix)
            if inner is None or is_private(inner):
                continue
            r = m.lookup(kind, inner)
            if r is not None:
                hits.append(r)
        if hits:
            if len({(id(h[0]), h[1]) for h in hits}) > 1:
                raise ModErr("ambiguous", name)      # two forwarded modules define the same member: outside the judged fragment
            return hits[0]
        return None


class Project:
    def __init__(self, files, resolve):
        self.files = files            # path -> ModuleSrc
        self.resolve = resolve        # (url, importer) -> canonical path or None
        self.loaded = {}
        self.active = []
        self.exec_log = []
        self.css = []
        self.last_used = set()

    def load(self, url, importer, config=None, implicit=False):
        """implicit: the configuration arrives through a @forward rule; variables the module does not declare are
        simply left for others (no error). self.last_used reports which configured names the load consumed."""
        path = self.resolve(url, importer)
        if path is None:
            raise ModErr("not-found", url)
        if path in self.active:
            raise ModErr("loop", url)
        if path in self.loaded:
            self.last_used = set()
            if config and not implicit:
                raise ModErr("already-loaded", url)
            return self.loaded[path]
        src = self.files[path]
        mod = Module(src)
        self.active.append(path)
        config = dict(config or {})
        used_config = set()
        try:
            for (u, show, hide, prefix, fwith) in src.forwards:
                # configuration passes through @forward: names are un-prefixed for the upstream module
                passed = {}
                for k, v in config.items():
                    if k in used_config:
                        continue
                    # only variables this @forward exposes can be configured through it
                    inner = mod._filter(k, "var", show, hide, prefix)
                    if inner is None:
                        continue
                    passed[inner] = v
                if fwith:
                    for k, v in fwith.items():
                        passed.setdefault(k, v)
                explicit_fwd = bool(fwith)
                dep = self.load(u, path, passed or None, implicit=not explicit_fwd)
                for k in self.last_used:
                    used_config.add((prefix or "") + k)
                mod.forwarded.append((dep, show, hide, prefix))
            uses = {}
            for (u, ns, uwith) in src.uses:
                dep = self.load(u, path, uwith)
                uses[ns] = dep
            self.exec_log.append(src.name)      # the module's own statements run after its @use/@forward rules
            for (name, value, is_default) in src.vars:
                n = norm_name(name)
                if is_default:
                    mod.configurable.add(n)
                    if n in config and n not in used_config:     # (a value consumed by a forwarded module is gone)
                        mod.vars[n] = config[n]
                        used_config.add(n)
                        continue
                mod.vars[n] = value
            if not implicit:
                for k in config:
                    if k not in used_config and norm_name(k) not in mod.configurable:
                        raise ModErr("not-configurable", k)
            for (name, ret) in src.funcs:
                mod.funcs[norm_name(name)] = ret
            for (name, mk) in src.mixins:
                mod.mixins[norm_name(name)] = mk
            if src.marker is not None:
                self.css.append(src.name)
        finally:
            self.active.pop()
        self.loaded[path] = mod
        self.last_used = set(k for k in config if k in used_config)
        return mod
