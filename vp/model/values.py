"""A small independent value representation shared by the reference models, with Sass literal printing and
conversion from the worker's probe dumps.

Values: ('n', float, unit) | ('s', text, quoted) | ('b', bool) | ('null',) | ('l', [items], sep, bracketed) | ('m', [(k, v)...])
sep in 'space' | 'comma' | 'slash' | 'undecided'
"""
import struct

NULL = ("null",)
TRUE = ("b", True)
FALSE = ("b", False)


def num(x, unit=""):
    return ("n", float(x), unit)


def s(text, quoted=True):
    return ("s", text, quoted)


def lst(items, sep="space", br=False):
    return ("l", list(items), sep, br)


def mp(pairs):
    return ("m", list(pairs))


def is_list(v):
    return v[0] == "l"


def as_list(v):
    if v[0] == "l":
        return v[1]
    if v[0] == "m":
        return [lst([k, x], "space") for k, x in v[1]]
    return [v]


def sep_of(v):
    if v[0] == "l":
        return v[2]
    if v[0] == "m":
        return "comma" if v[1] else "undecided"
    return "undecided"


def eq(a, b):
    if a[0] != b[0]:
        # (whether the empty list equals the empty map is an equality choice, C09's subject, not imposed here)
        return False
    if a[0] == "n":
        return a[2] == b[2] and abs(a[1] - b[1]) < 1e-11
    if a[0] == "s":
        return a[1] == b[1]
    if a[0] == "b":
        return a[1] == b[1]
    if a[0] == "null":
        return True
    if a[0] == "l":
        if len(a[1]) != len(b[1]) or a[3] != b[3]:
            return False
        if len(a[1]) > 0 and _s(a[2]) != _s(b[2]):
            return False
        return all(eq(x, y) for x, y in zip(a[1], b[1]))
    if a[0] == "m":
        if len(a[1]) != len(b[1]):
            return False
        for k, v in a[1]:
            w = map_get(b, k)
            if w is None or not eq(v, w):
                return False
        return True
    return False


def _s(sep):
    return sep


def map_get(m, k):
    for kk, v in m[1]:
        if eq(kk, k):
            return v
    return None


_ESC = {'"': '\\"', "\\": "\\\\", "\n": "\\a ", "#": "\\#"}


def lit(v, top=True):
    """Sass source text of a value (always parenthesised where needed so it can be used as an argument)"""
    k = v[0]
    if k == "n":
        x = v[1]
        t = str(int(x)) if x == int(x) and abs(x) < 1e15 else repr(x)
        return t + v[2]
    if k == "s":
        if v[2]:
            return '"' + "".join(_ESC.get(c, c) for c in v[1]) + '"'
        return v[1] if v[1] else 'unquote("")'
    if k == "b":
        return "true" if v[1] else "false"
    if k == "null":
        return "null"
    if k == "l":
        items, sep, br = v[1], v[2], v[3]
        o, c = ("[", "]") if br else ("(", ")")
        if not items:
            return o + c
        if len(items) == 1:
            if sep == "comma":
                return o + lit(items[0], False) + "," + c
            if br and sep in ("undecided", "space"):
                return "[" + lit(items[0], False) + "]"
            if br:
                return "list.join(%s, (), %s, true)" % (lit(lst(items, "comma"), False), sep)
            if sep == "slash":
                return "list.join(%s, (), slash)" % lit(lst(items, "comma"), False)
            return "list.join(%s, (), space)" % lit(lst(items, "comma"), False)
        if sep == "slash":
            inner = "list.slash(%s)" % ", ".join(lit(i, False) for i in items)
            return "list.join(%s, (), $bracketed: true)" % inner if br else inner
        j = ", " if sep == "comma" else " "
        return o + j.join(lit(i, False) for i in items) + c
    if k == "m":
        if not v[1]:
            return "map-remove((a: 1), a)"
        return "(" + ", ".join("%s: %s" % (lit(a, False), lit(b, False)) for a, b in v[1]) + ")"
    raise ValueError(k)


def from_dump(d):
    t = d.get("t")
    if t == "n":
        x = struct.unpack(">d", bytes.fromhex(d["bits"]))[0]
        u = "*".join(d["nu"]) + ("/" + "*".join(d["du"]) if d["du"] else "")
        return ("n", x, u)
    if t == "s":
        return ("s", d["v"], d["q"])
    if t == "b":
        return ("b", d["v"])
    if t == "null":
        return NULL
    if t == "l":
        return ("l", [from_dump(x) for x in d["v"]], d["sep"], d["br"])
    if t == "al":
        return ("l", [from_dump(x) for x in d["v"]], d["sep"], False)
    if t == "m":
        return ("m", [(from_dump(k), from_dump(v)) for k, v in d["v"]])
    return ("other", str(d)[:80])


def same(a, b, strict_sep=True):
    """structural identity up to number tolerance (stricter than eq: quotedness and separators count)"""
    if a[0] != b[0]:
        return False
    if a[0] == "n":
        return a[2] == b[2] and (abs(a[1] - b[1]) <= 1e-11 * max(1, abs(a[1])))
    if a[0] == "s":
        return a[1] == b[1] and a[2] == b[2]
    if a[0] == "l":
        if len(a[1]) != len(b[1]) or a[3] != b[3]:
            return False
        if strict_sep and len(a[1]) >= 2 and a[2] != b[2]:
            return False
        return all(same(x, y, strict_sep) for x, y in zip(a[1], b[1]))
    if a[0] == "m":
        return len(a[1]) == len(b[1]) and all(same(k1, k2) and same(v1, v2) for (k1, v1), (k2, v2) in zip(a[1], b[1]))
    return a == b
