"""Independent CSS reader (CSS Syntax Level 3 tokenizer + rule/declaration parser + canonicaliser).
Shares no code with grass. Reports imbalance / unterminated constructs instead of guessing."""
import re

WS = " \t\n\r\f"


class CssError(Exception):
    pass


def _is_name_start(c):
    return c.isalpha() or c == "_" or ord(c) >= 0x80


def _is_name(c):
    return _is_name_start(c) or c.isdigit() or c == "-"


def _valid_escape(s, i):
    return i + 1 < len(s) and s[i] == "\\" and s[i + 1] not in "\n\r\f"


def _starts_ident(s, i):
    n = len(s)
    if i >= n:
        return False
    c = s[i]
    if c == "-":
        if i + 1 < n and (_is_name_start(s[i + 1]) or s[i + 1] == "-"):
            return True
        return _valid_escape(s, i + 1)
    if _is_name_start(c):
        return True
    if c == "\\":
        return _valid_escape(s, i)
    return False


def _starts_number(s, i):
    n = len(s)
    if i >= n:
        return False
    c = s[i]
    if c in "+-":
        if i + 1 < n and s[i + 1].isdigit():
            return True
        return i + 2 < n and s[i + 1] == "." and s[i + 2].isdigit()
    if c == ".":
        return i + 1 < n and s[i + 1].isdigit()
    return c.isdigit()


def _consume_escape(s, i):
    """s[i] is just after the backslash. returns (char, new_i)"""
    n = len(s)
    if i >= n:
        return "\ufffd", i
    c = s[i]
    if c in "0123456789abcdefABCDEF":
        j = i
        while j < n and j - i < 6 and s[j] in "0123456789abcdefABCDEF":
            j += 1
        v = int(s[i:j], 16)
        if j < n and s[j] in WS:
            if s[j] == "\r" and j + 1 < n and s[j + 1] == "\n":
                j += 1
            j += 1
        if v == 0 or v > 0x10FFFF or 0xD800 <= v <= 0xDFFF:
            return "\ufffd", j
        return chr(v), j
    return c, i + 1


def _consume_name(s, i):
    out = []
    n = len(s)
    while i < n:
        c = s[i]
        if _is_name(c):
            out.append(c)
            i += 1
        elif _valid_escape(s, i):
            ch, i = _consume_escape(s, i + 1)
            out.append(ch)
        else:
            break
    return "".join(out), i


def _consume_number(s, i):
    j = i
    n = len(s)
    if j < n and s[j] in "+-":
        j += 1
    while j < n and s[j].isdigit():
        j += 1
    if j + 1 < n and s[j] == "." and s[j + 1].isdigit():
        j += 2
        while j < n and s[j].isdigit():
            j += 1
    if j < n and s[j] in "eE":
        k = j + 1
        if k < n and s[k] in "+-":
            k += 1
        if k < n and s[k].isdigit():
            while k < n and s[k].isdigit():
                k += 1
            j = k
    return s[i:j], j


def tokenize(s):
    """Returns list of (type, value[, extra]). Raises CssError on unterminated comment/string/url."""
    toks = []
    i = 0
    n = len(s)
    while i < n:
        c = s[i]
        if c == "/" and i + 1 < n and s[i + 1] == "*":
            k = s.find("*/", i + 2)
            if k < 0:
                raise CssError("unterminated comment")
            toks.append(("comment", s[i:k + 2]))
            i = k + 2
        elif c in WS:
            j = i
            while j < n and s[j] in WS:
                j += 1
            toks.append(("ws", " "))
            i = j
        elif c in "\"'":
            j = i + 1
            out = []
            while True:
                if j >= n:
                    raise CssError("unterminated string")
                d = s[j]
                if d == c:
                    j += 1
                    break
                if d in "\n\r\f":
                    raise CssError("newline in string (bad-string)")
                if d == "\\":
                    if j + 1 >= n:
                        raise CssError("unterminated string")
                    if s[j + 1] in "\n\f":
                        j += 2
                    elif s[j + 1] == "\r":
                        j += 3 if j + 2 < n and s[j + 2] == "\n" else 2
                    else:
                        ch, j = _consume_escape(s, j + 1)
                        out.append(ch)
                else:
                    out.append(d)
                    j += 1
            toks.append(("string", "".join(out), c))
            i = j
        elif c == "#":
            if i + 1 < n and (_is_name(s[i + 1]) or _valid_escape(s, i + 1)):
                name, j = _consume_name(s, i + 1)
                toks.append(("hash", name))
                i = j
            else:
                toks.append(("delim", "#"))
                i += 1
        elif c in "([{":
            toks.append((c, c))
            i += 1
        elif c in ")]}":
            toks.append((c, c))
            i += 1
        elif c == ",":
            toks.append(("comma", ","))
            i += 1
        elif c == ":":
            toks.append(("colon", ":"))
            i += 1
        elif c == ";":
            toks.append(("semicolon", ";"))
            i += 1
        elif _starts_number(s, i) and not (c in "+-" and False):
            num, j = _consume_number(s, i)
            if _starts_ident(s, j):
                unit, j = _consume_name(s, j)
                toks.append(("dimension", num, unit))
            elif j < n and s[j] == "%":
                toks.append(("percentage", num))
                j += 1
            else:
                toks.append(("number", num))
            i = j
        elif c == "<" and s.startswith("<!--", i):
            toks.append(("cdo", "<!--"))
            i += 4
        elif c == "-" and s.startswith("-->", i):
            toks.append(("cdc", "-->"))
            i += 3
        elif c == "@":
            if _starts_ident(s, i + 1):
                name, j = _consume_name(s, i + 1)
                toks.append(("at", name))
                i = j
            else:
                toks.append(("delim", "@"))
                i += 1
        elif _starts_ident(s, i):
            name, j = _consume_name(s, i)
            if j < n and s[j] == "(":
                if name.lower() == "url":
                    # url( ... ): quoted => function token; unquoted => url token
                    k = j + 1
                    while k < n and s[k] in WS:
                        k += 1
                    if k < n and s[k] in "\"'":
                        toks.append(("function", name))
                        i = j + 1
                        toks.append(("(", "("))
                        continue
                    out = []
                    while True:
                        if k >= n:
                            raise CssError("unterminated url")
                        d = s[k]
                        if d == ")":
                            k += 1
                            break
                        if d in WS:
                            while k < n and s[k] in WS:
                                k += 1
                            if k < n and s[k] == ")":
                                k += 1
                                break
                            if k >= n:
                                raise CssError("unterminated url")
                            raise CssError("bad url (whitespace inside)")
                        if d in "\"'(":
                            raise CssError("bad url (quote or paren inside)")
                        if d == "\\":
                            if _valid_escape(s, k):
                                ch, k = _consume_escape(s, k + 1)
                                out.append(ch)
                                continue
                            raise CssError("bad url (bad escape)")
                        out.append(d)
                        k += 1
                    toks.append(("url", "".join(out)))
                    i = k
                else:
                    toks.append(("function", name))
                    toks.append(("(", "("))
                    i = j + 1
            else:
                toks.append(("ident", name))
                i = j
        elif c == "\\":
            raise CssError("stray backslash")
        else:
            toks.append(("delim", c))
            i += 1
    return toks


PAIR = {"(": ")", "[": "]", "{": "}"}


def check_balance(toks):
    st = []
    for t in toks:
        k = t[0]
        if k in PAIR:
            st.append(PAIR[k])
        elif k in (")", "]", "}"):
            if not st or st[-1] != k:
                raise CssError("unbalanced %r" % k)
            st.pop()
    if st:
        raise CssError("unclosed block, expected %r" % st[-1])


# ---------------------------------------------------------------- parsing


class Rule:
    __slots__ = ("kind", "name", "prelude", "decls", "rules", "has_block")

    def __init__(self, kind, name, prelude, has_block):
        self.kind = kind          # 'at' | 'style'
        self.name = name          # at-rule name (lower) or None
        self.prelude = prelude    # tokens
        self.decls = []           # [(name, value_tokens)]
        self.rules = []           # nested Rules
        self.has_block = has_block


def _strip(toks):
    a, b = 0, len(toks)
    while a < b and toks[a][0] in ("ws", "comment"):
        a += 1
    while b > a and toks[b - 1][0] in ("ws", "comment"):
        b -= 1
    return toks[a:b]


def _find_block_or_semicolon(toks, i):
    """scan from i to the first top-level '{' or ';' (or end). returns (index, kind)"""
    depth = 0
    n = len(toks)
    while i < n:
        k = toks[i][0]
        if k in ("(", "["):
            depth += 1
        elif k in (")", "]"):
            depth -= 1
        elif depth == 0 and k == "{":
            return i, "{"
        elif depth == 0 and k == ";" or (depth == 0 and k == "semicolon"):
            return i, ";"
        elif depth == 0 and k == "}":
            return i, "}"
        i += 1
    return n, "eof"


def _match_brace(toks, i):
    depth = 0
    n = len(toks)
    while i < n:
        k = toks[i][0]
        if k == "{":
            depth += 1
        elif k == "}":
            depth -= 1
            if depth == 0:
                return i
        i += 1
    raise CssError("unclosed {")


def parse_items(toks, top):
    """Parses a list of rules/declarations. Returns (decls, rules) preserving relative order through
    an 'order' list of ('d', idx) / ('r', idx)."""
    decls, rules, order = [], [], []
    i = 0
    n = len(toks)
    while i < n:
        k = toks[i][0]
        if k in ("ws", "semicolon", "cdo", "cdc"):
            i += 1
            continue
        if k == "comment":
            if toks[i][1].startswith("/*!") or True:
                r = Rule("comment", None, [toks[i]], False)
                rules.append(r)
                order.append(("r", len(rules) - 1))
            i += 1
            continue
        if k == "at":
            j, what = _find_block_or_semicolon(toks, i + 1)
            r = Rule("at", toks[i][1].lower(), _strip(toks[i + 1:j]), what == "{")
            if what == "{":
                e = _match_brace(toks, j)
                d2, r2, _ = parse_items(toks[j + 1:e], False)
                r.decls, r.rules = d2, r2
                i = e + 1
            else:
                i = j + 1 if what == ";" else j
            rules.append(r)
            order.append(("r", len(rules) - 1))
            continue
        if not top and k == "ident" and toks[i][1].startswith("--"):
            q = i + 1
            while q < n and toks[q][0] in ("ws", "comment"):
                q += 1
            if q < n and toks[q][0] == "colon":
                # custom property: the value may contain {} blocks; runs to the next top-level ';'
                depth = 0
                j = q + 1
                while j < n:
                    kk = toks[j][0]
                    if kk in ("(", "[", "{"):
                        depth += 1
                    elif kk in (")", "]", "}"):
                        depth -= 1
                    elif kk == "semicolon" and depth == 0:
                        break
                    j += 1
                decls.append((toks[i][1], _strip(toks[q + 1:j])))
                order.append(("d", len(decls) - 1))
                i = j + 1
                continue
        # declaration or qualified rule: decide by which of ';' / '{' / '}' comes first
        j, what = _find_block_or_semicolon(toks, i)
        if what == "{" and not (not top and _looks_like_declaration(toks[i:j]) and False):
            e = _match_brace(toks, j)
            r = Rule("style", None, _strip(toks[i:j]), True)
            d2, r2, _ = parse_items(toks[j + 1:e], False)
            r.decls, r.rules = d2, r2
            rules.append(r)
            order.append(("r", len(rules) - 1))
            i = e + 1
            continue
        if top:
            raise CssError("declaration or junk at top level: %s" % serialize(toks[i:j])[:60])
        seg = _strip(toks[i:j])
        # name : value
        c = None
        for q, t in enumerate(seg):
            if t[0] == "colon":
                c = q
                break
        if c is None:
            raise CssError("declaration without colon: %s" % serialize(seg)[:60])
        name = serialize(_strip(seg[:c]))
        decls.append((name, _strip(seg[c + 1:])))
        order.append(("d", len(decls) - 1))
        i = j + 1 if what == ";" else j
    return decls, rules, order


def _looks_like_declaration(seg):
    return False


def parse(text):
    toks = tokenize(text)
    check_balance(toks)
    d, r, _ = parse_items(toks, True)
    return r


# ---------------------------------------------------------------- serialisation / canonical forms


def _esc_ident(name):
    out = []
    for idx, ch in enumerate(name):
        if ch.isalnum() or ch in "-_" or ord(ch) >= 0x80:
            if idx == 0 and ch.isdigit():
                out.append("\\%x " % ord(ch))
            else:
                out.append(ch)
        else:
            out.append("\\%x " % ord(ch) if ord(ch) < 0x20 or ch in "\n\r\f" else "\\" + ch)
    return "".join(out)


def canon_number(num):
    """canonical spelling of a CSS number token text: no '+', no leading zero, no trailing zeros, -0 => 0"""
    s = num
    neg = s.startswith("-")
    if s[0] in "+-":
        s = s[1:]
    mant, exp = s, ""
    for e in "eE":
        if e in mant:
            mant, exp = mant.split(e, 1)
            exp = "e" + exp
            break
    if "." in mant:
        a, b = mant.split(".", 1)
        b = b.rstrip("0")
    else:
        a, b = mant, ""
    a = a.lstrip("0")
    if not a and not b:
        return "0"
    out = (a or "") + ("." + b if b else "")
    if not a and b:
        out = "." + b
    return ("-" if neg else "") + out + exp


NAMED = None


def _named():
    global NAMED
    if NAMED is None:
        from .colornames import NAMES
        NAMED = NAMES
    return NAMED


def canon_color_ident(name):
    v = _named().get(name.lower())
    if v is None:
        return None
    return "#%02x%02x%02x" % v


def canon_hash(h):
    hl = h.lower()
    if re.fullmatch(r"[0-9a-f]{3}", hl):
        return "#" + "".join(c * 2 for c in hl)
    if re.fullmatch(r"[0-9a-f]{4}", hl):
        return "#" + "".join(c * 2 for c in hl)
    if re.fullmatch(r"[0-9a-f]{6}|[0-9a-f]{8}", hl):
        return "#" + hl
    return None


def serialize(toks, canon=False, colors=False):
    """Token list -> text. canon=True removes comments, collapses whitespace, canonicalises numbers;
    colors=True additionally canonicalises colour spellings (names and hex)."""
    out = []
    prev_ws = False
    for t in toks:
        k = t[0]
        if k == "comment":
            if canon:
                continue
            out.append(t[1])
        elif k == "ws":
            if canon:
                prev_ws = True
                continue
            out.append(" ")
        else:
            if canon and prev_ws and out:
                out.append(" ")
            prev_ws = False
            if k == "string":
                q = '"'
                out.append(q + t[1].replace("\\", "\\\\").replace('"', '\\"').replace("\n", "\\a ") + q if canon else _str(t))
            elif k == "hash":
                c = canon_hash(t[1]) if colors else None
                out.append(c if c else "#" + t[1])
            elif k == "ident":
                c = canon_color_ident(t[1]) if colors else None
                out.append(c if c else (t[1] if canon else _esc_ident(t[1])))
            elif k == "function":
                out.append(t[1])
            elif k == "at":
                out.append("@" + t[1])
            elif k == "number":
                out.append(canon_number(t[1]) if canon else t[1])
            elif k == "percentage":
                out.append((canon_number(t[1]) if canon else t[1]) + "%")
            elif k == "dimension":
                out.append((canon_number(t[1]) if canon else t[1]) + t[2])
            elif k == "url":
                out.append("url(" + t[1] + ")")
            else:
                out.append(t[1])
    return "".join(out)


def _str(t):
    q = t[2] if len(t) > 2 else '"'
    return q + t[1].replace("\\", "\\\\").replace(q, "\\" + q).replace("\n", "\\a ") + q


_TIGHT = re.compile(r"\s*([,>+~/])\s*")


def _num_of(t):
    """numeric value (float, unit) of a number-like token, else None"""
    if t[0] == "number":
        return float(t[1]), ""
    if t[0] == "percentage":
        return float(t[1]), "%"
    if t[0] == "dimension":
        return float(t[1]), t[2].lower()
    return None


def _rhu(x):
    """round half up (CSS / Sass channel rounding)"""
    import math
    return int(math.floor(x + 0.5 + 1e-9))


def _hsl_to_rgb(h, s, l):
    h = (h % 360) / 360.0
    s = min(max(s, 0.0), 1.0)
    l = min(max(l, 0.0), 1.0)
    m2 = l * (s + 1) if l <= 0.5 else l + s - l * s
    m1 = l * 2 - m2

    def hue(hh):
        if hh < 0:
            hh += 1
        if hh > 1:
            hh -= 1
        if hh * 6 < 1:
            return m1 + (m2 - m1) * hh * 6
        if hh * 2 < 1:
            return m2
        if hh * 3 < 2:
            return m1 + (m2 - m1) * (2.0 / 3 - hh) * 6
        return m1
    return tuple(_rhu(hue(x) * 255) for x in (h + 1.0 / 3, h, h - 1.0 / 3))


_ANGLE = {"": 1.0, "deg": 1.0, "grad": 0.9, "rad": 57.29577951308232, "turn": 360.0}


def _canon_rgba(r, g, b, a):
    a = min(max(a, 0.0), 1.0)
    return "color(%d,%d,%d,%s)" % (min(max(r, 0), 255), min(max(g, 0), 255), min(max(b, 0), 255),
                                   canon_number("%.5f" % a))


def _color_fn(name, args):
    """args: list of token lists (split at commas, or at whitespace and '/' in the modern syntax)."""
    vals = []
    for a in args:
        a = [t for t in a if t[0] not in ("ws", "comment")]
        if len(a) != 1:
            return None
        v = _num_of(a[0])
        if v is None:
            return None
        vals.append(v)
    if len(vals) not in (3, 4):
        return None
    alpha = 1.0
    if len(vals) == 4:
        alpha = vals[3][0] / 100.0 if vals[3][1] == "%" else vals[3][0]
    if name in ("rgb", "rgba"):
        ch = []
        for v, u in vals[:3]:
            if u == "%":
                ch.append(_rhu(v * 255 / 100.0))
            elif u == "":
                ch.append(_rhu(v))
            else:
                return None
        return _canon_rgba(ch[0], ch[1], ch[2], alpha)
    if name in ("hsl", "hsla"):
        (h, hu), (sv, su), (lv, lu) = vals[:3]
        if hu not in _ANGLE or su != "%" or lu != "%":
            return None
        r, g, b = _hsl_to_rgb(h * _ANGLE[hu], sv / 100.0, lv / 100.0)
        return _canon_rgba(r, g, b, alpha)
    return None


def _colorize(toks):
    """replace colour spellings (named, hex, rgb()/hsl() with literal arguments) by one canonical token"""
    out = []
    i = 0
    n = len(toks)
    while i < n:
        t = toks[i]
        if t[0] == "function" and t[1].lower() in ("rgb", "rgba", "hsl", "hsla") and i + 1 < n and toks[i + 1][0] == "(":
            j = i + 2
            depth = 1
            while j < n and depth:
                if toks[j][0] == "(":
                    depth += 1
                elif toks[j][0] == ")":
                    depth -= 1
                j += 1
            inner = toks[i + 2:j - 1]
            if any(x[0] == "comma" for x in inner):
                args, cur = [], []
                for x in inner:
                    if x[0] == "comma":
                        args.append(cur)
                        cur = []
                    else:
                        cur.append(x)
                args.append(cur)
            else:
                args = [[x] for x in inner if x[0] not in ("ws", "comment") and not (x[0] == "delim" and x[1] == "/")]
            c = _color_fn(t[1].lower(), args)
            if c is not None:
                out.append(("ident", c))
                i = j
                continue
        if t[0] == "hash":
            h = canon_hash(t[1])
            if h:
                hx = h[1:]
                a = int(hx[6:8], 16) / 255.0 if len(hx) == 8 else 1.0
                out.append(("ident", _canon_rgba(int(hx[0:2], 16), int(hx[2:4], 16), int(hx[4:6], 16), a)))
                i += 1
                continue
        if t[0] == "ident":
            v = _named().get(t[1].lower())
            if v is not None:
                out.append(("ident", _canon_rgba(v[0], v[1], v[2], 1.0)))
                i += 1
                continue
            if t[1].lower() == "transparent":
                out.append(("ident", _canon_rgba(0, 0, 0, 0.0)))
                i += 1
                continue
        out.append(t)
        i += 1
    return out


def canon_value(toks):
    """canonical text of a declaration value: whitespace-insensitive around ',' and '/', number and
    colour spelling normalised, comments dropped; string token contents untouched."""
    return _canon_join(_colorize(toks), colors=False)


def _canon_join(toks, colors):
    """serialize canonically with spaces around , and / removed (outside strings)"""
    parts = []
    pending_ws = False
    for t in toks:
        k = t[0]
        if k == "comment":
            continue
        if k == "ws":
            pending_ws = True
            continue
        txt = serialize([t], canon=True, colors=colors)
        tight = k in ("comma", "colon", ")") or (k == "delim" and t[1] in "/!*")
        if pending_ws and parts and not tight and parts[-1] not in (",", "/", "(", ":", "*"):
            parts.append(" ")
        pending_ws = False
        parts.append(txt)
    return "".join(parts)


def canon_selector(toks):
    """canonical selector text: whitespace collapsed, no spaces around combinators and commas"""
    parts = []
    pending_ws = False
    for t in toks:
        k = t[0]
        if k == "comment":
            continue
        if k == "ws":
            pending_ws = True
            continue
        txt = serialize([t], canon=True)
        comb = k == "comma" or (k == "delim" and t[1] in ">+~")
        if pending_ws and parts and not comb and parts[-1] not in (",", ">", "+", "~", "(", "["):
            if k not in (")", "]"):
                parts.append(" ")
        pending_ws = False
        parts.append(txt)
    return "".join(parts)


def flatten(rules, ctx=(), keep_comments=False):
    """-> list of blocks (context tuple, selector text, [(prop, value)]) in document order.
    At-rules without block (e.g. @import, @charset) appear as (ctx, '@name prelude', None)."""
    out = []
    for r in rules:
        if r.kind == "comment":
            if keep_comments and r.prelude[0][1].startswith("/*!"):
                out.append((ctx, r.prelude[0][1], None))
            continue
        if r.kind == "style":
            sel = canon_selector(r.prelude)
            decls = [(n, canon_value(v)) for n, v in r.decls]
            out.append((ctx, sel, decls))
            if r.rules:
                out.extend(flatten(r.rules, ctx + (sel,), keep_comments))
        else:
            head = "@" + r.name + (" " + _canon_join(r.prelude, colors=False) if r.prelude else "")
            if not r.has_block:
                out.append((ctx, head, None))
                continue
            kids = flatten(r.rules, ctx + (head,), keep_comments)
            if r.decls:
                out.append((ctx, head, [(n, canon_value(v)) for n, v in r.decls]))
            elif not kids:
                out.append((ctx, head, []))
            out.extend(kids)
    return out


def read(text, keep_comments=False):
    """Full pipeline; strips a leading BOM / @charset for the structural view but reports them."""
    info = {"bom": text.startswith("\ufeff"), "charset": None}
    if info["bom"]:
        text = text[1:]
    rules = parse(text)
    # only the encoding declaration the serializer itself writes is stripped: `@charset "<string>";` as the very first
    # rule (a user-written `@charset` at-rule without a string, or further down, is ordinary content)
    if rules and rules[0].kind == "at" and rules[0].name == "charset" and not rules[0].has_block \
            and [t[0] for t in rules[0].prelude if t[0] not in ("ws", "comment")] == ["string"]:
        info["charset"] = serialize(rules[0].prelude)
        rules = rules[1:]
    return flatten(rules, (), keep_comments), info
