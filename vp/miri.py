"""Run worker requests under Miri (UB / data-race interpreter). Slow (~1 s per small compilation):
requests are sharded over several `cargo miri run` processes."""
import json
import os
import shutil
import subprocess
import tempfile

from . import build


def run(reqs_per_proc, seeds=None, timeout=1700):
    """reqs_per_proc: list (one per process) of request lists. Returns list of dicts
    {rc, ub(bool), log(str tail), responses(list)} per process."""
    d = tempfile.mkdtemp(prefix="vp-miri-")
    try:
        h, env = build.miri_cmd()
        procs = []
        for i, reqs in enumerate(reqs_per_proc):
            inp = os.path.join(d, "in%d.jsonl" % i)
            out = os.path.join(d, "out%d.jsonl" % i)
            with open(inp, "w") as f:
                for r in reqs:
                    f.write(json.dumps(r) + "\n")
            e = dict(env)
            if seeds:
                e["MIRIFLAGS"] = env["MIRIFLAGS"] + " -Zmiri-seed=%d" % seeds[i]
            p = subprocess.Popen(["cargo", "+nightly", "miri", "run", "--offline", "--quiet", "--", "--in", inp, "--out", out, "--stack-mb", "8"],
                                 cwd=h, env=e, stdout=subprocess.PIPE, stderr=subprocess.STDOUT, text=True)
            procs.append((p, out))
        res = []
        for p, out in procs:
            try:
                txt, _ = p.communicate(timeout=timeout)
                rc = p.returncode
            except subprocess.TimeoutExpired:
                p.kill()
                txt, rc = "timeout", None
            responses = []
            try:
                responses = [json.loads(l) for l in open(out)]
            except (OSError, ValueError):
                pass
            res.append({"rc": rc, "ub": ("Undefined Behavior" in txt) or ("data race" in txt.lower()), "log": txt[-3000:], "responses": responses})
        return res
    finally:
        shutil.rmtree(d, ignore_errors=True)
