"""Build the worker (and the CLI) from the repository's *current working tree*."""
import hashlib
import os
import shutil
import subprocess
import sys

VERIF = os.path.dirname(os.path.dirname(os.path.abspath(__file__)))
REPO = os.environ.get("VERIF_REPO", "/repo")


def _key(repo):
    return "repo" if repo == "/repo" else "alt-" + hashlib.sha1(repo.encode()).hexdigest()[:10]


def target_dir(repo=None):
    repo = repo or REPO
    return os.path.join(VERIF, "target", _key(repo))


def harness_dir(repo=None):
    """A rendered copy of the harness crate for this repo path (manifest has the path dep)."""
    repo = repo or REPO
    d = os.path.join(VERIF, "target", "harness-" + _key(repo))
    os.makedirs(os.path.join(d, "src"), exist_ok=True)
    src = os.path.join(VERIF, "harness")
    tmpl = open(os.path.join(src, "Cargo.toml.in")).read().replace("@REPO@", repo)
    _write_if_changed(os.path.join(d, "Cargo.toml"), tmpl)
    for f in os.listdir(os.path.join(src, "src")):
        _write_if_changed(os.path.join(d, "src", f), open(os.path.join(src, "src", f)).read())
    lock = os.path.join(d, "Cargo.lock")
    if not os.path.exists(lock):
        shutil.copy(os.path.join(repo, "Cargo.lock"), lock)
    return d


def _write_if_changed(path, text):
    try:
        if open(path).read() == text:
            return
    except OSError:
        pass
    with open(path, "w") as f:
        f.write(text)


def _env(extra=None):
    e = dict(os.environ)
    e["CARGO_NET_OFFLINE"] = "true"
    e.pop("RUSTFLAGS", None)
    if extra:
        e.update(extra)
    return e


class BuildError(Exception):
    pass


def _run(cmd, cwd, env, what):
    p = subprocess.run(cmd, cwd=cwd, env=env, stdout=subprocess.PIPE, stderr=subprocess.STDOUT, text=True)
    if p.returncode != 0:
        sys.stderr.write(p.stdout[-6000:])
        raise BuildError("build failed: " + what)
    return p.stdout


def build_worker(profile="R", repo=None):
    """profile R = release-like, D = debug-like. Returns path of the vw binary."""
    repo = repo or REPO
    h = harness_dir(repo)
    td = target_dir(repo)
    cmd = ["cargo", "build", "--offline", "--quiet"]
    if profile == "R":
        cmd.append("--release")
    _run(cmd, h, _env({"CARGO_TARGET_DIR": td}), "worker " + profile)
    return os.path.join(td, "release" if profile == "R" else "debug", "vw")


def build_worker_san(kind, repo=None):
    """kind in {asan, tsan}: nightly sanitizer build of the same worker."""
    repo = repo or REPO
    h = harness_dir(repo)
    td = os.path.join(target_dir(repo), kind)
    tgt = "x86_64-unknown-linux-gnu"
    if kind == "asan":
        flags = "-Zsanitizer=address -Cforce-frame-pointers=yes"
        cmd = ["cargo", "+nightly", "build", "--offline", "--quiet", "--release", "--target", tgt]
    elif kind == "tsan":
        flags = "-Zsanitizer=thread -Cforce-frame-pointers=yes"
        cmd = ["cargo", "+nightly", "build", "--offline", "--quiet", "--release", "-Zbuild-std", "--target", tgt]
    else:
        raise ValueError(kind)
    _run(cmd, h, _env({"CARGO_TARGET_DIR": td, "RUSTFLAGS": flags}), "worker " + kind)
    return os.path.join(td, tgt, "release", "vw")


def build_cli(release=False, repo=None):
    """The real `grass` binary from the repo workspace. Built into our own target dir so /repo stays clean."""
    repo = repo or REPO
    td = os.path.join(target_dir(repo), "cli")
    cmd = ["cargo", "build", "--offline", "--quiet", "-p", "grass", "--bin", "grass"]
    if release:
        cmd.append("--release")
    # dev profile with opt-level 1 (an unoptimised binary needs ~100 ms per invocation); --release uses the
    # repository's own release profile (LTO, panic=abort)
    _run(cmd, repo, _env({"CARGO_TARGET_DIR": td, "CARGO_PROFILE_DEV_OPT_LEVEL": "1", "CARGO_PROFILE_DEV_DEBUG": "0"}), "cli")
    return os.path.join(td, "release" if release else "debug", "grass")


def miri_cmd(repo=None):
    repo = repo or REPO
    h = harness_dir(repo)
    td = os.path.join(target_dir(repo), "miri")
    env = _env({"CARGO_TARGET_DIR": td, "MIRIFLAGS": "-Zmiri-disable-isolation -Zmiri-ignore-leaks"})
    return h, env
