"""Driver side of the vw worker protocol."""
import json
import os
import select
import signal
import subprocess
import time


class Worker:
    def __init__(self, binary, cwd=None, stack_mb=256, env=None, timeout=20.0, mem_gb=6):
        self.binary = binary
        self.cwd = cwd
        self.stack_mb = stack_mb
        self.env = env
        self.timeout = timeout
        self.mem_gb = mem_gb      # address-space limit of the worker (0 = none): a runaway compilation must not take the box down
        self.proc = None
        self.spawns = 0
        self.deaths = 0
        self.timeouts = 0
        self._buf = b""
        self._spawn()

    def _spawn(self):
        r_req, w_req = os.pipe()
        r_resp, w_resp = os.pipe()

        # child gets r_req as fd3 and w_resp as fd4
        self.proc = subprocess.Popen(
            [self.binary, "--stack-mb", str(self.stack_mb), "--fds", str(r_req), str(w_resp)],
            cwd=self.cwd,
            env=self._env(),
            stdin=subprocess.DEVNULL,
            stdout=subprocess.DEVNULL,
            stderr=subprocess.DEVNULL,
            pass_fds=(r_req, w_resp),
            close_fds=True,
            preexec_fn=self._limits if self.mem_gb else None,
        )
        os.close(r_req)
        os.close(w_resp)
        self.w = w_req
        self.r = r_resp
        self._buf = b""
        self.spawns += 1

    def _limits(self):
        import resource
        lim = int(self.mem_gb * (1 << 30))
        try:
            resource.setrlimit(resource.RLIMIT_AS, (lim, lim))
        except (ValueError, OSError):
            pass

    def _env(self):
        e = dict(os.environ if self.env is None else self.env)
        if self.env is not None:
            for k in ("PATH", "HOME"):
                if k in os.environ:
                    e.setdefault(k, os.environ[k])
        # keep the heap mapped between compilations (page faults are the bottleneck in this VM)
        e.setdefault("MALLOC_TRIM_THRESHOLD_", "2000000000")
        e.setdefault("MALLOC_TOP_PAD_", "67108864")
        e.setdefault("MALLOC_MMAP_THRESHOLD_", "1073741824")
        return e

    def close(self):
        try:
            os.close(self.w)
        except OSError:
            pass
        try:
            os.close(self.r)
        except OSError:
            pass
        if self.proc and self.proc.poll() is None:
            self.proc.kill()
        if self.proc:
            try:
                self.proc.wait(timeout=5)
            except Exception:
                pass
        self.proc = None

    def _kill_respawn(self):
        self.close()
        self._spawn()

    def request(self, req, timeout=None):
        """Send one request object, wait for its response. Returns the response dict, or
        {"died": <returncode>} / {"timeout": True} (worker respawned in both cases)."""
        timeout = timeout or self.timeout
        data = (json.dumps(req, separators=(",", ":")) + "\n").encode()
        deadline = time.monotonic() + timeout
        view = memoryview(data)
        try:
            while view or True:
                rl, wl = [self.r], ([self.w] if view else [])
                left = deadline - time.monotonic()
                if left <= 0:
                    self.timeouts += 1
                    self._kill_respawn()
                    return {"timeout": True}
                rr, ww, _ = select.select(rl, wl, [], min(left, 1.0))
                if ww:
                    n = os.write(self.w, view[:65536])
                    view = view[n:]
                if rr:
                    chunk = os.read(self.r, 1 << 20)
                    if not chunk:
                        rc = self.proc.wait()
                        self.deaths += 1
                        self._kill_respawn()
                        return {"died": rc}
                    self._buf += chunk
                    nl = self._buf.find(b"\n")
                    if nl >= 0:
                        line = self._buf[:nl]
                        self._buf = self._buf[nl + 1:]
                        return json.loads(line)
        except (BrokenPipeError, OSError):
            try:
                rc = self.proc.wait(timeout=5)
            except Exception:
                rc = None
            self.deaths += 1
            self._kill_respawn()
            return {"died": rc}

    # -- conveniences -------------------------------------------------
    def compile(self, spec, timeout=None):
        """One compilation on a fresh thread. Returns the per-spec result dict
        (with 'died'/'timeout' keys on process-level failures)."""
        r = self.request(spec, timeout)
        if "results" in r:
            return r["results"][0][0]
        return r

    def batch(self, specs, timeout=None, fresh=False):
        """Independent compilations. Default: executed one after the other on the worker's persistent
        compile thread (recycled every 400 compilations); fresh=True: each on a brand-new thread.
        If the worker dies/times out in the batch, every spec is re-run alone (fresh thread) so the
        failure is attributed to the right one."""
        if not specs:
            return []
        req = {"batch": specs}
        if fresh:
            req["fresh"] = True
        r = self.request(req, timeout or self.timeout * 2)
        if "batch" in r:
            return r["batch"]
        return [self.compile(s, timeout) for s in specs]

    def history(self, specs, timeout=None):
        """Compilations executed one after the other on ONE thread (shared thread-local state)."""
        r = self.request({"history": specs}, timeout or self.timeout * 2)
        if "results" in r:
            return r["results"][0]
        return r

    def threads(self, lists, timeout=None):
        """N lists of compilations run concurrently on N threads."""
        r = self.request({"threads": lists}, timeout or self.timeout * 4)
        if "results" in r:
            return r["results"]
        return r


def sigdesc(rc):
    if rc is None:
        return "unknown"
    if rc < 0:
        try:
            return signal.Signals(-rc).name
        except ValueError:
            return "signal %d" % -rc
    return "exit %d" % rc
