"""Hostile-input generators: near-miss mutation, token soup, ill-typed builtin calls, deep shapes."""
import glob
import os
import re

from .. import build

DICT = [
    "#{", "}", "{", "(", ")", "[", "]", ";", ":", ",", "@else", "@else if", "@if ", "@for $i from 1 through 3",
    "@each $a in ", "@while ", "@function f()", "@return ", "@mixin m", "@include m", "@content", "@media ",
    "@supports ", "@at-root ", "@extend ", "@import ", "@use ", "@forward ", "@charset ", "@debug ", "@warn ",
    "@error ", "@keyframes ", "@font-face", "@-moz-document ", "!default", "!global", "!important", "!optional",
    "$a", "$a: ", "&", "&-b", "%p", ".a", "#b", "*", "+", "-", "/", "%", "==", "!=", "<=", ">=", "<", ">",
    " and ", " or ", "not ", "1e999", "1e-999", "1e", ".5", "0.", "-0", "1px", "2em", "3%", "4deg", "1/2",
    "\\9", "\\", "\\a ", "\\110000 ", "\\0 ", "\\d800 ", "\\dbff", "\\dc00 ", "\\dfff ", "\\10ffff ", "\\ffffff", "\\e000 ", "\u0000", "\ufeff", "\U0001F389", "e\u0301", "\u200d", "\r\n", "\r",
    "\f", "\n", "\n  ", "\t", "//", "/*", "*/", "/*!", "'", '"', "url(", "url(#{", "calc(", "min(", "max(", "clamp(",
    "var(--x", "--x:", "progid:", "expression(", "element(", "U+26", "U+0-7F", "u+1??", "rgb(", "hsl(", "hwb(",
    "if(", "map-get(", "nth(", "call(", "get-function(", "selector-", "inspect(", "null", "true", "false",
    "()", "(a: b)", "(a: b,)", "[", "[a b]", "...", "$args...", "as *", "with (", "show ", "hide ", "from ", "to ",
    "through ", "in ", "using (", ":not(", ":is(", ":where(", ":nth-child(2n+1 of ", "::before", ":hover",
    "[a=b]", "[a|=\"b\" i]", "~", ">", "||", "|", "@", "#", "$", "!", "=", "?", "`", "^",
    # non-ASCII white space (also at the start of a line: error rendering measures columns and bytes there)
    "\u00a0", "\u3000", "\u2003", "\u2028", "\u0085", "\n\u3000", "\n\u3000\u3000", "\n \u00a0", "\n\u00a0\u00a0\u00a0", "\n\u2003}", "\n\u3000}",
]


def mutate(rng, s, other=None):
    """One to three character/token level edits."""
    for _ in range(1 + rng.below(3)):
        k = rng.below(11)
        n = len(s)
        if k == 0 and n:  # delete span
            i = rng.below(n)
            j = min(n, i + 1 + rng.below(4))
            s = s[:i] + s[j:]
        elif k == 1:  # insert dict token
            i = rng.below(n + 1)
            s = s[:i] + rng.choice(DICT) + s[i:]
        elif k == 2 and n:  # replace char by dict token
            i = rng.below(n)
            s = s[:i] + rng.choice(DICT) + s[i + 1:]
        elif k == 3 and n > 1:  # swap two chars
            i = rng.below(n - 1)
            s = s[:i] + s[i + 1] + s[i] + s[i + 2:]
        elif k == 4 and n:  # duplicate span
            i = rng.below(n)
            j = min(n, i + 1 + rng.below(12))
            s = s[:j] + s[i:j] + s[j:]
        elif k == 5 and n:  # truncate
            s = s[:rng.below(n)]
        elif k == 6 and n:  # truncate front
            s = s[rng.below(n):]
        elif k == 7 and other:  # crossover
            i = rng.below(n + 1)
            j = rng.below(len(other) + 1)
            s = s[:i] + other[j:]
        elif k == 8 and n:  # replace char with random printable / special
            i = rng.below(n)
            c = rng.choice("{}()[];:,#$@&%!\"'\\/*+-=<>.~|^ \n\t0e") if rng.chance(0.8) else chr(rng.range(1, 0x2FF))
            s = s[:i] + c + s[i + 1:]
        elif k == 9 and other:  # splice a fragment of other into s
            i = rng.below(n + 1)
            a = rng.below(len(other) + 1)
            b = min(len(other), a + 1 + rng.below(20))
            s = s[:i] + other[a:b] + s[i:]
        elif k == 10 and n:  # delete one char
            i = rng.below(n)
            s = s[:i] + s[i + 1:]
    return s[:8192]


# code points at every boundary the escape decoder has to handle (NUL, C0, surrogate range edges, BMP end, max, beyond)
ESCAPE_CPS = ["0", "1", "9", "a", "d", "1f", "20", "22", "27", "5c", "7f", "80", "a0", "d7ff", "d800", "d801", "dbff",
              "dc00", "dc01", "dfff", "e000", "fffd", "fffe", "ffff", "10000", "10ffff", "110000", "1fffff", "ffffff",
              "00d800", "00dc00", "0000000", "dc000", "G", "", "\n"]
ESCAPE_CONTEXTS = [
    'a { b: "x%sy"; }', "a { b: 'x%sy'; }", 'a { b: x%sy; }', 'a { b: %s; }', 'a { b%s: c; }', '.a%s { b: c; }', '#a%s { b: c; }',
    'a%s { b: c; }', '%%p%s { b: c; } a { @extend %%p%s; }', 'a { b: url(x%sy); }', 'a { b: url("x%sy"); }', '$a%s: 1; a { b: $a%s; }',
    '@function f%s() { @return 1; } a { b: f%s(); }', '@mixin m%s { b: c; } a { @include m%s; }', 'a { b: "#{x%sy}"; }',
    'a { b: #{"x%sy"}; }', '@import "x%sy.css";', '@use "x%sy";', '@media x%sy { a { b: c; } }', 'a { --x%s: y%s; }',
    '[a="x%sy"] { b: c; }', '[a%s=b] { c: d; }', 'a { b: c !imp%sortant; }', '@if true {} @%s lse { a { b: c; } }',
    '@if true {} @e%slse { a { b: c; } }', 'a { b: U+%s; }', 'a { b: calc(1px + x%s); }', 'a { b: str-length("%s"); }',
    'a { b: unquote("%s") + quote(x%s); }', '@%s x { a { b: c; } }', '@x%s y%s { a { b: c; } }', '@keyframes k%s { fr%som { a: b; } }',
    ':not(.a%s) { b: c; }', 'a::b%s { c: d; }', 'a { b: map-get((x%s: 1), x%s); }', '@charset "x%sy"; a { b: c; }',
    '@supports (a%s: b%s) { c { d: e; } }', '@at-root a%s { b: c; }', '@debug "x%sy"; @warn x%s; a { b: c; }', '@error "x%sy";',
    '@font-face { font-family: "a%s"; unicode-range: U+%s; }', 'a { b: selector-parse(".x%sy"); }', '/* x%sy */ a { b: c; }',
    '// x%sy\na { b: c; }', 'a { b: 1%s; c: 1px%s; d: #a%s; e: 10%s0; }',
]


def escape_family():
    """every boundary code point as a hex escape (with/without the terminating space, short/padded/overlong) in every
    lexical context that decodes escapes; yields (text, syntax)"""
    for cp in ESCAPE_CPS:
        forms = ["\\" + cp, "\\" + cp + " ", "\\" + cp.upper() + "\t"] if cp not in ("", "\n", "G") else ["\\" + cp]
        for ctx in ESCAPE_CONTEXTS:
            for f in forms:
                text = ctx.replace("%s", f).replace("%%", "%")
                yield text, "scss"
                if ctx.startswith(("a { b:", "@import", "@use", "@charset", "/*", "[a=", ".a", "#a")):
                    yield text, "css"
    for cp in ESCAPE_CPS:
        f = "\\" + cp + " "
        for body in ('a\n  b: "x%sy"', 'a%s\n  b: c', 'a\n  b%s: x%s', '@if true\n  a\n    b: c\n@%s lse\n  a\n    b: d', '$a%s: 1\na\n  b: $a%s',
                     '@import "x%sy.css"', 'a\n  b: url(x%sy)', '=m%s\n  b: c\na\n  +m%s'):
            yield body.replace("%s", f), "sass"


SASS_LINES = [
    "a", "b: c", ".x", "&:hover", "& > d", "d", "e: f g", "/*", "/* x", "/* x */", "/*!", "*/", " * y", "// z", "//", "/**/", "/* #{1 +", "/* #{1 + 1}",
    "@if true", "@else", "@else if false", "@each $i in 1 2", "@for $i from 1 through 2", "@while false", "@media screen", "@supports (a: b)",
    "@at-root", "@at-root .r", "=m", "=m($a)", "+m", "+m(1)", "@mixin n", "@include n", "@function f()", "@return 1", "@content", "@debug 1", "@warn w",
    "@error e", "@import 'x'", "@use 'y'", "@forward 'z'", "@charset 'u'", "@extend .x", "$v: 1", "$v: 1 !default", "--c: { a }", "font:", "family: x",
    "p: 1 +", "q: (1,", "2)", "r: \"s", "t\"", "k: #{", "}", "a,", "b", "[x=", "y]", ":not(", ".z)", "@keyframes k", "from", "50%", "to", "@font-face",
    "@page :first", "@unknown x", "@unknown", ";", "{", "a { b: c }", "a: b;", "", "", " ", "\t", "é: ü", "\\", "u: url(", "v)", "!important", "w: x !important",
]


def sass_lines(rng):
    """indentation-sensitive soup for the indented syntax: dictionary lines at random (also inconsistent, decreasing,
    tab/space mixed) indentation, blank lines, CR/CRLF/FF line ends"""
    n = rng.range(2, 12)
    level = 0
    out = []
    unit = rng.choice(["  ", "  ", "    ", "\t", " "])
    for _ in range(n):
        k = rng.below(10)
        if k < 4:
            level = max(0, level + rng.choice([-2, -1, -1, 0]))
        elif k < 8:
            level = level + 1 if rng.chance(0.7) else level
        else:
            level = rng.below(4)
        ind = unit * level
        if rng.chance(0.06):
            ind = ind[:-1] if ind else " "
        if rng.chance(0.04):
            ind = ind.replace(" ", "\t", 1) if " " in ind else ind + " "
        out.append(ind + rng.choice(SASS_LINES))
    nl = rng.choice(["\n", "\n", "\n", "\r\n", "\r", "\f"])
    text = nl.join(out)
    return text + (nl if rng.chance(0.7) else "")


def soup(rng, maxtok=40):
    n = 1 + rng.below(maxtok)
    parts = []
    for _ in range(n):
        if rng.chance(0.7):
            parts.append(rng.choice(DICT))
        elif rng.chance(0.5):
            parts.append(rng.choice(["a", "b", "foo", "x-y", "_z", "A", "é"]))
        else:
            parts.append(str(rng.below(100)))
        if rng.chance(0.4):
            parts.append(" ")
    return "".join(parts)


# ---------------------------------------------------------------- builtins

_FALLBACK_GLOBAL = """length nth list-separator set-nth append join is-bracketed index zip map-get map-has-key map-keys
map-values map-merge map-remove percentage round ceil floor abs min max comparable random if feature-exists unit
type-of unitless inspect variable-exists global-variable-exists mixin-exists function-exists get-function call
content-exists keywords is-superselector simple-selectors selector-parse selector-nest selector-append
selector-extend selector-replace selector-unify to-upper-case to-lower-case str-length quote unquote str-slice
str-index str-insert unique-id rgb rgba hsl hsla hwb red green blue mix lighten darken saturate desaturate
adjust-hue hue saturation lightness complement grayscale invert alpha opacity opacify fade-in transparentize
fade-out adjust-color scale-color change-color ie-hex-str""".split()

_cache = None


def builtin_names(repo=None):
    """(global function names, {module: [names]}) read from the tree under test (workload only)."""
    global _cache
    if _cache:
        return _cache
    repo = repo or build.REPO
    g = set()
    mods = {}
    base = os.path.join(repo, "crates/compiler/src/builtin")
    for p in glob.glob(os.path.join(base, "functions", "**", "*.rs"), recursive=True):
        try:
            src = open(p).read()
        except OSError:
            continue
        g.update(re.findall(r'f\.insert\(\s*"([a-z0-9-]+)"', src))
    for p in glob.glob(os.path.join(base, "modules", "*.rs")):
        name = os.path.basename(p)[:-3]
        if name == "mod":
            continue
        try:
            src = open(p).read()
        except OSError:
            continue
        fs = re.findall(r'insert_builtin\(\s*"([a-z0-9-]+)"', src)
        if fs:
            mods[name] = sorted(set(fs))
    if len(g) < 60:
        g.update(_FALLBACK_GLOBAL)
    _cache = (sorted(g), mods)
    return _cache


VALUES = [
    "1", "0", "-1", "1.5", "-0.0", "1e3", "1e20", "1e-20", "(0/0)", "(1/0)", "(-1/0)", "math.div(0,0)", "math.div(1,0)",
    "1px", "2em", "3%", "4deg", "5s", "6Hz", "7dpi", "8fr", "1px*1em", "math.div(1px,1em)", "math.div(1,1px)",
    "1px*1px", "9999999999999999", "-9999999999999999", "0.1+0.2", "1in", "96px", "1turn",
    '"a"', "a", '""', 'unquote("")', '"\\"\'"', '"é"', '"🎉x"', '"e\u0301"', '"a b"', '"#{1}"', "a-b", "A",
    "red", "#fff", "#12345678", "rgba(1,2,3,.5)", "hsl(10,20%,30%)", "transparent", "rgb(300,-1,0)",
    "true", "false", "null", "()", "(1,)", "(1 2)", "(1,2)", "[1]", "[]", "(1 2,3 4)", "(a:1)", "(a:1,b:(c:2))",
    "map-remove((a:1),a)", "(1/2)", "1 2 3 4 5 6 7", "join((),(),slash)", "list.slash(1,2)", "(a,b,c)",
    "get-function(length)", "get-function(f)", "get-function(lighten)", "get-function(\"if\")",
    "calc(1px + 1%)", "calc(1px + 2px)", "calc(var(--a))", "min(1px, 1em)", "clamp(1px, 2em, 3%)", "calc(1 + 2)",
    "max(1, 2px)", "calc(1px * 1em)", "calc(#{1})", "calc(1%)",
    "$args", "$kw", "$big", "&", "1 + 2", "a + b", "-a", "not 1", "1 == 1", "1 < 2",
    '".a .b"', '"a > b, c"', '"%p"', '":not(.a)"', '"&"', '">"', '"a,, b"', '""', '"[a=b]"', '":is(a, b) + c"',
    "'.a:hover'", '"a::before"', '"*"', '"a &"', '".a#{\'\'}"', "(a b, c d)", "(a, b c)", '(".a" ".b")',
]

PRELUDE = (
    '@use "sass:math"; @use "sass:list"; @use "sass:map"; @use "sass:string"; @use "sass:color"; '
    '@use "sass:selector"; @use "sass:meta";\n'
    "@function f($a: 1, $b...) { @return $a; }\n"
    "$big: 1 2 3 4 5 6 7 8 9 10 11 12;\n"
)


def builtin_call(rng):
    """A stylesheet calling one builtin with a random (often ill-typed) argument tuple."""
    g, mods = builtin_names()
    if rng.chance(0.5) or not mods:
        fn = rng.choice(g)
    else:
        m = rng.choice(sorted(mods))
        fn = m + "." + rng.choice(mods[m])
    nargs = rng.choice([0, 1, 1, 2, 2, 2, 3, 3, 4, 5])
    args = []
    for _ in range(nargs):
        v = rng.choice(VALUES)
        if rng.chance(0.08):
            v = "$%s: %s" % (rng.choice(["list", "map", "key", "n", "string", "color", "number", "separator",
                                         "args", "selector", "amount", "weight", "alpha", "start-at", "end-at",
                                         "index", "value", "unit", "name", "css", "module", "limit", "x", "y"]), v)
        elif rng.chance(0.04):
            v = v + "..."
        args.append(v)
    call = "%s(%s)" % (fn, ", ".join(args))
    ctx = rng.below(6)
    body = {
        0: "a { b: %s; }" % call,
        1: "a { b: inspect(%s); }" % call,
        2: "$x: %s; a { b: $x; c: type-of($x); }" % call,
        3: "a { @debug %s; }" % call,
        4: "@mixin m($args...) { $kw: keywords($args); b: %s; } a { @include m(1, 2, $k: 3); }" % call,
        5: "a { b: %s + 1; c: #{%s}; }" % (call, call),
    }[ctx]
    return PRELUDE + body


def deep_shape(rng, depth):
    k = rng.below(12)
    if k == 0:
        return "a{b:" + "(" * depth + "1" + ")" * depth + "}"
    if k == 1:
        return "a{" * depth + "b:c" + "}" * depth
    if k == 2:
        return "a{b:" + "[" * depth + "]" * depth + "}"
    if k == 3:
        return "a{b:" + '"#{' * depth + "1" + '}"' * depth + "}"
    if k == 4:
        return ":not(" * depth + "a" + ")" * depth + "{b:c}"
    if k == 5:
        return "a{b:" + "calc(" * depth + "1" + ")" * depth + "}"
    if k == 6:
        return "a{b:" + "-" * depth + "1}"
    if k == 7:
        return "a{b:" + "not " * depth + "1}"
    if k == 8:
        return "@media " + "(" * depth + "a" + ")" * depth + "{a{b:c}}"
    if k == 9:
        return "@if true {" * depth + "a{b:c}" + "}" * depth
    if k == 10:
        return "a{b:" + "1+" * depth + "1}"
    return "a{b:" + "f(" * depth + "1" + ")" * depth + "}"
