"""Random selector generator over a small alphabet (per case minimal, so DOM enumeration stays cheap)."""

TYPES = ["a", "b"]
CLASSES = [".x", ".y", ".z"]
OTHERS = ["#i", "#j", "[t]", "[t=v]", ":hover", ":focus", "::before", "::after"]


def alphabet(rng, n_simple=4):
    pool = TYPES + CLASSES + OTHERS
    rng.shuffle(pool)
    al = pool[:n_simple]
    if not any(x in al for x in TYPES):
        al[0] = rng.choice(TYPES)
    if not any(x in al for x in CLASSES):
        al[-1] = rng.choice(CLASSES)
    return al


def compound(rng, al, depth=0, allow_pseudo_sel=True):
    types = [x for x in al if x in TYPES]
    rest = [x for x in al if x not in TYPES and not x.startswith("::")]
    pes = [x for x in al if x.startswith("::")]
    parts = []
    if types and rng.chance(0.45):
        parts.append(rng.choice(types))
    elif rng.chance(0.07):
        parts.append("*")
    for x in rng.sample(rest, min(len(rest), rng.choice([0, 1, 1, 2]))):
        parts.append(x)
    if allow_pseudo_sel and depth < 1 and rng.chance(0.18):
        nm = rng.choice([":not", ":not", ":is", ":where", ":matches"])
        if rng.chance(0.6):
            arg = compound(rng, al, depth + 1, False)
        else:
            arg = ", ".join(complex_(rng, al, depth + 1, maxc=2) for _ in range(rng.range(1, 2)))
        parts.append("%s(%s)" % (nm, arg))
    if pes and rng.chance(0.15):
        parts.append(rng.choice(pes))
    if not parts:
        parts.append(rng.choice(rest or types))
    # ids: at most one
    seen_id = False
    out = []
    for p in parts:
        if p.startswith("#"):
            if seen_id:
                continue
            seen_id = True
        out.append(p)
    return "".join(out)


def complex_(rng, al, depth=0, maxc=3):
    n = rng.choice([1, 1, 2, 2, 3][:max(2, maxc + 2)]) if maxc >= 3 else rng.range(1, maxc)
    out = compound(rng, al, depth)
    for _ in range(n - 1):
        out += rng.choice([" ", " ", " > ", " + ", " ~ "]) + compound(rng, al, depth)
    return out


def selector_list(rng, al, maxlen=2):
    return ", ".join(complex_(rng, al) for _ in range(rng.range(1, maxlen)))


def _split_complex(text):
    """split a complex selector (no commas at depth 0) into [compound, comb, compound, ...] at depth 0"""
    parts, cur, depth = [], "", 0
    i = 0
    while i < len(text):
        c = text[i]
        if c in "([":
            depth += 1
        elif c in ")]":
            depth -= 1
        if depth == 0 and c in " >+~":
            j = i
            while j < len(text) and text[j] in " >+~":
                j += 1
            comb = text[i:j].strip() or " "
            parts.append(cur)
            parts.append(comb)
            cur = ""
            i = j
            continue
        cur += c
        i += 1
    parts.append(cur)
    return [p for p in parts]


def related(rng, al, a):
    """a selector obtained from the complex selector `a` by one structural edit: an extra compound in front / in the
    middle / at the end, another combinator, an extra or missing simple selector, wrapping in :is(). Pairs (a, related)
    sit where sub/superselector relations are decided."""
    if "," in a:
        a = a.split(",")[0].strip()
    parts = _split_complex(a)
    if any(p == "" for p in parts[::2]):
        return complex_(rng, al)
    comps, combs = parts[::2], parts[1::2]
    k = rng.below(8)
    c = compound(rng, al, 1, False)
    comb = rng.choice([" ", ">", "+", "~"])
    if k == 0:
        comps, combs = [c] + comps, [comb] + combs
    elif k == 1 and len(comps) >= 2:
        i = rng.range(1, len(comps) - 1)
        comps = comps[:i] + [c] + comps[i:]
        combs = combs[:i - 1] + [combs[i - 1], rng.choice([combs[i - 1], comb])] + combs[i:]
    elif k == 2:
        comps, combs = comps + [c], combs + [comb]
    elif k == 3 and combs:
        i = rng.below(len(combs))
        combs[i] = comb
    elif k == 4:
        i = rng.below(len(comps))
        extra = rng.choice([x for x in al if not x.startswith("::") and x not in TYPES] or [".q"])
        if extra not in comps[i] and "::" not in comps[i]:
            comps[i] = comps[i] + extra
    elif k == 5 and len(comps) >= 2:
        i = rng.below(len(comps))
        comps = comps[:i] + comps[i + 1:]
        combs = combs[:max(0, i - 1)] + combs[i:] if i > 0 else combs[1:]
    elif k == 6:
        return ":is(%s)" % a if rng.chance(0.5) else "%s, %s" % (a, complex_(rng, al, maxc=2))
    else:
        comps = comps[::-1]
    out = comps[0]
    for cb, cp in zip(combs, comps[1:]):
        out += (" " if cb == " " else " %s " % cb) + cp
    return out
