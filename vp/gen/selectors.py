"""Random selector generator over a small alphabet (per case minimal, so DOM enumeration stays cheap)."""

TYPES = ["a", "b"]
CLASSES = [".x", ".y", ".z"]
OTHERS = ["#i", "#j", "[t]", "[t=v]", ":hover", ":focus", "::before", "::after"]


def alphabet(rng, n_simple=4):
    pool = TYPES + CLASSES + OTHERS
    rng.shuffle(pool)
    al = pool[:n_simple]
    if not any(x in al for x in TYPES):
        al[0] = rng.choice(TYPES)
    if not any(x in al for x in CLASSES):
        al[-1] = rng.choice(CLASSES)
    return al


def compound(rng, al, depth=0, allow_pseudo_sel=True):
    types = [x for x in al if x in TYPES]
    rest = [x for x in al if x not in TYPES and not x.startswith("::")]
    pes = [x for x in al if x.startswith("::")]
    parts = []
    if types and rng.chance(0.45):
        parts.append(rng.choice(types))
    elif rng.chance(0.07):
        parts.append("*")
    for x in rng.sample(rest, min(len(rest), rng.choice([0, 1, 1, 2]))):
        parts.append(x)
    if allow_pseudo_sel and depth < 1 and rng.chance(0.18):
        nm = rng.choice([":not", ":not", ":is", ":where", ":matches"])
        if rng.chance(0.6):
            arg = compound(rng, al, depth + 1, False)
        else:
            arg = ", ".join(complex_(rng, al, depth + 1, maxc=2) for _ in range(rng.range(1, 2)))
        parts.append("%s(%s)" % (nm, arg))
    if pes and rng.chance(0.15):
        parts.append(rng.choice(pes))
    if not parts:
        parts.append(rng.choice(rest or types))
    # ids: at most one
    seen_id = False
    out = []
    for p in parts:
        if p.startswith("#"):
            if seen_id:
                continue
            seen_id = True
        out.append(p)
    return "".join(out)


def complex_(rng, al, depth=0, maxc=3):
    n = rng.choice([1, 1, 2, 2, 3][:max(2, maxc + 2)]) if maxc >= 3 else rng.range(1, maxc)
    out = compound(rng, al, depth)
    for _ in range(n - 1):
        out += rng.choice([" ", " ", " > ", " + ", " ~ "]) + compound(rng, al, depth)
    return out


def selector_list(rng, al, maxlen=2):
    return ", ".join(complex_(rng, al) for _ in range(rng.range(1, maxlen)))
