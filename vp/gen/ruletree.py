"""Random rule trees for C04: style rules with `&` in every allowed position, nested properties, @media,
@supports, unknown at-rules and @at-root (with/without queries), declarations before/after nested rules."""
from .ast import S

TOP_SELS = ["a", ".b", "#c", "a, .b", ".x .y", "d > e", ".b:hover", "a, .b, #c", ".x .y, d > e, f"]
NESTED_SELS = ["a", ".b", "#c", "&", "&-s", "&.t", "&:hover", ".x &", "& > y", "& + &", "& .z", "a, .b", "&-s, .q", "& ~ w", "&, .m", "> k", "+ k",
               ":not(&)", "u:not(&)", ":is(&) v", "&:not(.n)", "&::before", "&[x]", "q &, & r", "&-s &-t", ".o:where(&)",
               # lists whose members multiply differently against the parent list (1 / n / n*n results)
               ":not(&), .n", "& + &, .z", ".x, & &", "&, :is(&) v, & &", "& > &, &-s, .q"]
MEDIA = ["screen", "print", "(a)", "(b)", "screen and (a)", "(a) and (b)", "screen, print"]
ATROOT_Q = [None, None, ("without", {"rule"}), ("without", {"media"}), ("without", {"all"}), ("with", {"rule"}), ("with", {"media"}),
            ("without", {"media", "rule"}), ("with", {"all"}), ("without", {"supports"}), ("with", {"supports", "media"}), ("without", {"foo"})]


class Gen:
    def __init__(self, rng):
        self.rng = rng
        self.n = 0

    def decl(self):
        self.n += 1
        v = "v%d" % self.n
        return S("decl", prop=self.rng.choice(["p", "q", "r"]), expr=("str", v, False), text=v)

    def body(self, depth, in_rule, in_media):
        rng = self.rng
        out = []
        for _ in range(rng.range(1, 3 if depth > 1 else 4)):
            k = rng.below(100)
            if in_rule and k < 35:
                out.append(self.decl())
            elif k < 60 and depth < 4:
                sel = rng.choice(NESTED_SELS if in_rule else TOP_SELS)
                out.append(S("rule", selector=sel, body=self.body(depth + 1, True, in_media)))
            elif k < 70 and depth < 4:
                out.append(S("media", query=rng.choice(MEDIA), body=self.body(depth + 1, in_rule, True)))
            elif k < 76 and depth < 4:
                out.append(S("supports", cond=rng.choice(["(d: e)", "(f: g)", "not (h: i)"]), body=self.body(depth + 1, in_rule, in_media)))
            elif k < 81 and depth < 4:
                out.append(S("unknown", name=rng.choice(["foo", "bar"]), params_text=rng.choice(["x", "y z", "(k)"]), body=self.body(depth + 1, in_rule, in_media)))
            elif k < 90 and depth < 4 and depth > 0:
                q = rng.choice(ATROOT_Q)
                qt = None
                if q is not None:
                    qt = "(%s: %s)" % (q[0], " ".join(sorted(q[1])))
                # after `@at-root` (default or excluding rules) declarations need a rule again
                excl_rule = q is None or (q[0] == "without" and ("rule" in q[1] or "all" in q[1])) or (q[0] == "with" and "rule" not in q[1] and "all" not in q[1])
                if q is None and rng.chance(0.5):
                    # the selector form `@at-root <selector> { ... }` (= `@at-root { <selector> { ... } }`)
                    r = S("rule", selector=rng.choice(NESTED_SELS if in_rule else TOP_SELS), body=self.body(depth + 1, True, in_media))
                    out.append(S("atroot", query=None, q=None, body=[r], short=True))
                    continue
                body = self.body(depth + 1, in_rule and not excl_rule, in_media)
                out.append(S("atroot", query=qt, q=q, body=body))
            elif in_rule and k < 96:
                out.append(S("nested", prop=rng.choice(["font", "m"]), body=[self.nested_decl(depth) for _ in range(rng.range(1, 3))]))
            elif in_rule:
                out.append(self.decl())
            else:
                out.append(S("rule", selector=rng.choice(TOP_SELS), body=self.body(depth + 1, True, in_media)))
        return out

    def nested_decl(self, depth):
        if depth < 3 and self.rng.chance(0.35):
            return S("nested", prop=self.rng.choice(["x", "y"]), body=[self.decl() for _ in range(self.rng.range(1, 2))])
        return self.decl()


def tree(rng):
    return Gen(rng).body(0, False, False)
