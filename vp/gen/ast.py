"""AST of the modelled Sass core + two independent pretty-printers (SCSS, indented).

Expressions are tuples:
  ('num', float, unit) ('str', text, quoted) ('bool', b) ('null',) ('list', [e], sep, bracketed) ('map', [(k, v)])
  ('var', name) ('bin', op, l, r) ('not', e) ('neg', e) ('paren', e) ('call', name, [args], [(kw, e)], rest|None)
  ('istr', [str | expr])          -- quoted string with interpolation
Statements are `S` objects (identity matters: printers record the line of each statement).
"""


class S:
    __slots__ = ("k", "a", "line")

    def __init__(self, k, **a):
        self.k = k
        self.a = a
        self.line = {}

    def __getattr__(self, n):
        if n in ("k", "a", "line"):      # unset slot (e.g. while unpickling): not an attribute of `a`
            raise AttributeError(n)
        try:
            return self.a[n]
        except KeyError:
            raise AttributeError(n)

    def __repr__(self):
        return "S(%s, %s)" % (self.k, self.a)


def num_text(x):
    if x == int(x) and abs(x) < 1e15:
        return str(int(x))
    return repr(round(x, 6))


_ESC = {'"': '\\"', "\\": "\\\\", "#": "\\#", "\n": "\\a "}


def quote(text):
    return '"' + "".join(_ESC.get(c, c) for c in text) + '"'


PREC = {"or": 1, "and": 2, "==": 4, "!=": 4, "<": 5, ">": 5, "<=": 5, ">=": 5, "+": 6, "-": 6, "*": 7, "%": 7}


def expr(e, ctx=0):
    """`ctx` = the lowest operator precedence that may appear here without parentheses (only consulted by the
    precedence-relying 'binraw' nodes; 'bin' nodes always parenthesise themselves)."""
    k = e[0]
    if k == "num":
        return num_text(e[1]) + e[2]
    if k == "str":
        return quote(e[1]) if e[2] else e[1]
    if k == "bool":
        return "true" if e[1] else "false"
    if k == "null":
        return "null"
    if k == "var":
        return "$" + e[1]
    if k == "list":
        items, sep, br = e[1], e[2], e[3]
        o, c = ("[", "]") if br else ("(", ")")
        if not items:
            return o + c
        # list items: a space-separated list binds tighter than any binary operator, so items are printed with the
        # highest context (binary items get parentheses); comma lists bind loosest
        ic = 0 if sep == "comma" else 99
        if len(items) == 1:
            return o + expr(items[0], ic) + ("," if sep == "comma" or not br else "") + c
        return o + (", " if sep == "comma" else " ").join(expr(i, ic) for i in items) + c
    if k == "map":
        return "(" + ", ".join("%s: %s" % (expr(a), expr(b)) for a, b in e[1]) + ")"
    if k == "bin":
        # explicit parentheses around the operation; the operands are printed in the operator's context so that
        # 'binraw' children below get the parentheses they need
        pr = PREC[e[1]]
        return "(%s %s %s)" % (expr(e[2], pr), e[1], expr(e[3], pr + 1))
    if k == "binraw":
        # relies on precedence and left associativity: parenthesised only when the context binds tighter
        pr = PREC[e[1]]
        t = "%s %s %s" % (expr(e[2], pr), e[1], expr(e[3], pr + 1))
        return "(%s)" % t if pr < ctx else t
    if k == "not":
        return "not %s" % expr(e[1], 99)
    if k == "neg":
        return "-%s" % expr(e[1], 99) if e[1][0] in ("var", "paren", "call") else "(-1 * %s)" % expr(e[1], 8)
    if k == "paren":
        return "(%s)" % expr(e[1])
    if k == "call":
        args = [expr(a) for a in e[2]] + ["$%s: %s" % (n, expr(v)) for n, v in e[3]]
        if e[4] is not None:
            args.append(expr(e[4], 99) + "...")
        return "%s(%s)" % (e[1], ", ".join(args))
    if k == "istr":
        out = []
        for p in e[1]:
            out.append("".join(_ESC.get(c, c) for c in p) if isinstance(p, str) else "#{%s}" % expr(p))
        return '"' + "".join(out) + '"'
    raise ValueError(k)


def relax(e, rng, p):
    """copy of expression `e` in which each 'bin' node becomes a precedence-relying 'binraw' node with probability p"""
    if not isinstance(e, tuple):
        return e
    k = e[0]
    if k == "bin":
        return ("binraw" if rng.chance(p) else "bin", e[1], relax(e[2], rng, p), relax(e[3], rng, p))
    if k == "list":
        return ("list", [relax(i, rng, p) for i in e[1]], e[2], e[3])
    if k == "map":
        return ("map", [(relax(a, rng, p), relax(b, rng, p)) for a, b in e[1]])
    if k in ("not", "neg", "paren"):
        return (k, relax(e[1], rng, p))
    if k == "call":
        return ("call", e[1], [relax(a, rng, p) for a in e[2]], [(n, relax(v, rng, p)) for n, v in e[3]], None if e[4] is None else relax(e[4], rng, p))
    if k == "istr":
        return ("istr", [x if isinstance(x, str) else relax(x, rng, p) for x in e[1]])
    return e


def params(ps, rest):
    out = ["$%s" % n if d is None else "$%s: %s" % (n, expr(d)) for n, d in ps]
    if rest:
        out.append("$%s..." % rest)
    return ", ".join(out)


def call_args(args, kwargs, rest):
    out = [expr(a) for a in args] + ["$%s: %s" % (n, expr(v)) for n, v in kwargs]
    if rest is not None:
        out.append(expr(rest) + "...")
    return ", ".join(out)


class Printer:
    """Common line bookkeeping; subclasses implement block syntax."""

    name = "?"

    def __init__(self):
        self.lines = []

    def emit(self, indent, text, stmt=None):
        self.lines.append("  " * indent + text)
        if stmt is not None:
            stmt.line[self.name] = len(self.lines)

    def text(self):
        return "\n".join(self.lines) + "\n"

    def header(self, s):
        k = s.k
        if k == "rule":
            return s.selector
        if k == "if":
            raise ValueError
        if k == "for":
            return "@for $%s from %s %s %s" % (s.var, expr(s.frm), "through" if s.through else "to", expr(s.to))
        if k == "each":
            return "@each %s in %s" % (", ".join("$" + v for v in s.vars), expr(s.expr))
        if k == "while":
            return "@while %s" % expr(s.cond)
        if k == "func":
            return "@function %s(%s)" % (s.name, params(s.params, s.rest))
        if k == "mixin":
            return "@mixin %s(%s)" % (s.name, params(s.params, s.rest)) if (s.params or s.rest) else "@mixin %s" % s.name
        if k == "media":
            return "@media %s" % s.query
        if k == "supports":
            return "@supports %s" % s.cond
        if k == "atroot":
            return "@at-root" + (" " + s.query if s.query else "")
        if k == "unknown":
            return "@%s %s" % (s.name, s.params_text)
        if k == "nested":
            return "%s:" % s.prop
        raise ValueError(k)

    def simple(self, s):
        k = s.k
        if k == "decl":
            return "%s: %s" % (s.prop, expr(s.expr))
        if k == "var":
            return "$%s: %s%s%s" % (s.name, expr(s.expr), " !default" if s.default else "", " !global" if s.glob else "")
        if k == "return":
            return "@return %s" % expr(s.expr)
        if k == "debug":
            return "@debug %s" % expr(s.expr)
        if k == "warn":
            return "@warn %s" % expr(s.expr)
        if k == "error":
            return "@error %s" % expr(s.expr)
        if k == "content":
            return "@content" + ("(%s)" % call_args(s.args, [], None) if s.args else "")
        if k == "extend":
            return "@extend %s%s" % (s.target, " !optional" if s.optional else "")
        if k == "include" and s.content is None:
            a = call_args(s.args, s.kwargs, s.rest)
            return "@include %s" % s.name + ("(%s)" % a if a else "")
        return None


class Scss(Printer):
    name = "scss"

    def block(self, ind, head, body, stmt=None):
        self.emit(ind, head + " {", stmt)
        self.stmts(body, ind + 1)
        self.emit(ind, "}")

    def stmts(self, body, ind=0):
        for s in body:
            t = self.simple(s)
            if t is not None:
                self.emit(ind, t + ";", s)
            elif s.k == "if":
                for i, (cond, b) in enumerate(s.clauses):
                    head = ("@if %s" if i == 0 else "} @else if %s") % expr(cond)
                    if i == 0:
                        self.emit(ind, head + " {", s)
                    else:
                        self.emit(ind, head + " {")
                    self.stmts(b, ind + 1)
                if s.els is not None:
                    self.emit(ind, "} @else {")
                    self.stmts(s.els, ind + 1)
                self.emit(ind, "}")
            elif s.k == "include":
                a = call_args(s.args, s.kwargs, s.rest)
                head = "@include %s" % s.name + ("(%s)" % a if a else "")
                if s.using:
                    head += " using (%s)" % params(s.using, None)
                self.block(ind, head, s.content, s)
            elif s.k == "atroot" and s.a.get("short"):
                self.block(ind, "@at-root " + s.body[0].selector, s.body[0].body, s)
            else:
                self.block(ind, self.header(s), s.body, s)


class Indented(Printer):
    name = "sass"

    def block(self, ind, head, body, stmt=None):
        self.emit(ind, head, stmt)
        self.stmts(body, ind + 1)

    def stmts(self, body, ind=0):
        for s in body:
            t = self.simple(s)
            if t is not None:
                self.emit(ind, t, s)
            elif s.k == "if":
                for i, (cond, b) in enumerate(s.clauses):
                    if i == 0:
                        self.emit(ind, "@if %s" % expr(cond), s)
                    else:
                        self.emit(ind, "@else if %s" % expr(cond))
                    self.stmts(b, ind + 1)
                if s.els is not None:
                    self.emit(ind, "@else")
                    self.stmts(s.els, ind + 1)
            elif s.k == "include":
                a = call_args(s.args, s.kwargs, s.rest)
                head = "@include %s" % s.name + ("(%s)" % a if a else "")
                if s.using:
                    head += " using (%s)" % params(s.using, None)
                self.block(ind, head, s.content, s)
            elif s.k == "atroot" and s.a.get("short"):
                self.block(ind, "@at-root " + s.body[0].selector, s.body[0].body, s)
            else:
                self.block(ind, self.header(s), s.body, s)


def to_scss(prog):
    p = Scss()
    p.stmts(prog)
    return p.text()


def to_sass(prog):
    p = Indented()
    p.stmts(prog)
    return p.text()
