"""Random generator of well-typed, terminating programs over the modelled Sass core (see vp/gen/ast.py).

Typing discipline: the *name* of a variable fixes its type ($n* numbers, $s* strings, $b* booleans, $l* lists of
numbers, $m* maps from unquoted strings to numbers), so whatever declaration a reference resolves to under the
scoping rules, the program stays well-typed. The generator tracks which names are *certainly* defined at each
point (declared earlier in an enclosing block, or global) and only references those.
"""
from .ast import S, relax

PROPS = ["a", "b", "c", "w", "x-y", "z"]
SELS = ["a", ".b", "#c", ".d e", "f > g", "h, i", ".j:hover"]


class Gen:
    def __init__(self, rng, size=30, allow_diag=True):
        self.rng = rng
        self.budget = size
        self.allow_diag = allow_diag
        self.funcs = []     # (name, ret_type, params[(name,type,has_default)], rest)
        self.mixins = []    # (name, params, rest, uses_content, using_n)
        self.counter = 0
        self.in_rule = False
        self.loop_depth = 0
        self.call_depth = 0
        self.control_depth = 0   # functions/mixins may not be declared inside control directives
        # share of binary operations printed without their own parentheses (relying on precedence/associativity)
        self.relax_p = rng.choice([0.0, 0.5, 0.5, 1.0])

    # ---------------------------------------------------------------- names
    def fresh(self, t):
        self.counter += 1
        return "%s%d" % (t, self.counter)

    def pick_var(self, scope, t, fresh_p=0.3):
        """existing name of type t (possibly shadowing) or a fresh one"""
        rng = self.rng
        names = [n for n in scope if n[0] == t]
        if names and not rng.chance(fresh_p):
            n = rng.choice(names)
            if rng.chance(0.15):
                n = n.replace("-", "_") if "-" in n else n
            return n
        return self.fresh(t)

    # ---------------------------------------------------------------- expressions
    def expr(self, t, scope, depth=2):
        e = self._expr(t, scope, depth)
        return relax(e, self.rng, self.relax_p) if self.relax_p else e

    def _expr(self, t, scope, depth=2):
        rng = self.rng
        names = [n for n in scope if n[0] == t]
        if t == "n":
            k = rng.below(12)
            if depth <= 0 or k < 3:
                if names and rng.chance(0.6):
                    return ("var", rng.choice(names))
                return ("num", float(rng.choice([0, 1, 2, 3, 4, 5, 7, 10, -1, -3, 1.5, 0.5, 2.5])), rng.choice(["", "", "", "px"]) if rng.chance(0.3) else "")
            if k < 7:
                op = rng.choice(["+", "-", "*", "+", "-"])
                l = self.expr("n", scope, depth - 1)
                r = self.expr("n", scope, depth - 1)
                if op == "*":
                    r = ("num", float(rng.choice([2, 3, -1, 0.5])), "")
                return ("bin", op, l, r)
            if k == 7:
                return ("bin", "%", self.expr("n", scope, depth - 1), ("num", float(rng.choice([2, 3, 5, -3])), ""))
            if k == 8:
                ls = [n for n in scope if n[0] == "l"]
                if ls:
                    return ("call", "length", [("var", rng.choice(ls))], [], None)
                return ("call", "length", [self.expr("l", scope, depth - 1)], [], None)
            if k == 9:
                fs = [f for f in self.funcs if f[1] == "n"]
                if fs and self.call_depth < 2:
                    return self.call_of(rng.choice(fs), scope, depth - 1)
                return ("neg", ("paren", self.expr("n", scope, depth - 1)))
            if k == 10:
                return ("call", "if", [self.expr("b", scope, depth - 1), self.expr("n", scope, depth - 1), self.expr("n", scope, depth - 1)], [], None)
            return ("call", "str-length", [self.expr("s", scope, depth - 1)], [], None)
        if t == "s":
            k = rng.below(10)
            if depth <= 0 or k < 4:
                if names and rng.chance(0.5):
                    return ("var", rng.choice(names))
                return ("str", rng.choice(["a", "bc", "x y", "q", "hello", "é", "w-1"]), True) if rng.chance(0.6) else ("str", rng.choice(["foo", "bar", "x", "auto", "k1"]), False)
            if k < 6:
                return ("bin", "+", self.expr("s", scope, depth - 1), self.expr(rng.choice(["s", "n"]), scope, depth - 1))
            if k == 6:
                return ("bin", "+", self.expr("n", scope, 0), self.expr("s", scope, depth - 1))
            if k == 7:
                return ("istr", [rng.choice(["v", "k ", ""]), self.expr(rng.choice(["n", "s", "b"]), scope, depth - 1), rng.choice(["", "!", "-z"])])
            if k == 8:
                fs = [f for f in self.funcs if f[1] == "s"]
                if fs and self.call_depth < 2:
                    return self.call_of(rng.choice(fs), scope, depth - 1)
                return ("str", "fallback", True)
            return ("call", "if", [self.expr("b", scope, depth - 1), self.expr("s", scope, depth - 1), self.expr("s", scope, depth - 1)], [], None)
        if t == "b":
            k = rng.below(10)
            if depth <= 0 or k < 2:
                if names and rng.chance(0.6):
                    return ("var", rng.choice(names))
                return ("bool", rng.chance(0.5))
            if k < 5:
                return ("bin", rng.choice(["<", ">", "<=", ">=", "==", "!="]), self.expr("n", scope, depth - 1), self.expr("n", scope, depth - 1))
            if k == 5:
                return ("bin", "==", self.expr("s", scope, depth - 1), self.expr("s", scope, depth - 1))
            if k == 6:
                return ("not", ("paren", self.expr("b", scope, depth - 1)))
            if k < 9:
                return ("bin", rng.choice(["and", "or"]), self.expr("b", scope, depth - 1), self.expr("b", scope, depth - 1))
            return ("bin", "==", self.expr("l", scope, depth - 1), self.expr("l", scope, depth - 1))
        if t == "l":
            if names and rng.chance(0.5):
                return ("var", rng.choice(names))
            if depth > 0 and rng.chance(0.2):
                return ("call", "append", [self.expr("l", scope, depth - 1), self.expr("n", scope, depth - 1)], [], None)
            n = rng.range(1, 4)
            br = rng.chance(0.15)
            sep = rng.choice(["comma", "space"])
            if n == 1 and not br:
                sep = "comma"      # `(x)` is just x: a one-element unbracketed list needs the trailing comma
            return ("list", [self.expr("n", scope, 0) for _ in range(n)], sep, br)
        if t == "m":
            if names and rng.chance(0.5):
                return ("var", rng.choice(names))
            keys = rng.sample(["k1", "k2", "k3", "zz"], rng.range(1, 3))
            return ("map", [(("str", k, False), self.expr("n", scope, 0)) for k in keys])
        raise ValueError(t)

    def call_of(self, f, scope, depth):
        name, ret, ps, rest = f
        rng = self.rng
        self.call_depth += 1
        try:
            args, kwargs = [], []
            named_mode = False
            for (pn, pt, has_default) in ps:
                if has_default and rng.chance(0.4):
                    named_mode = True
                    continue
                v = self.expr(pt, scope, depth)
                if named_mode or rng.chance(0.2):
                    named_mode = True
                    kwargs.append((pn if rng.chance(0.8) else pn.replace("-", "_"), v))
                else:
                    args.append(v)
            rest_e = None
            if rest and not named_mode:
                k = rng.below(3)
                if k == 0:
                    args += [self.expr("n", scope, 0) for _ in range(rng.range(0, 2))]
                elif k == 1:
                    rest_e = self.expr("l", scope, 0)
            return ("call", name, args, kwargs, rest_e)
        finally:
            self.call_depth -= 1

    # ---------------------------------------------------------------- statements
    def body(self, scope, ctx, n=None, depth=0):
        """ctx in 'root' | 'rule' | 'func' | 'mixin'. Returns list of statements; `scope` (set) is copied."""
        rng = self.rng
        scope = set(scope)
        out = []
        n = n if n is not None else rng.range(1, 4)
        for _ in range(n):
            if self.budget <= 0:
                break
            self.budget -= 1
            out.extend(self.stmt(scope, ctx, depth))
        if not out:
            out.append(self.simple(scope, ctx))
        return out

    def simple(self, scope, ctx):
        rng = self.rng
        if ctx in ("rule",):
            t = rng.choice(["n", "s", "n", "l", "b"])
            return S("decl", prop=rng.choice(PROPS), expr=self.expr(t, scope, 2))
        t = rng.choice(["n", "s", "b"])
        name = self.pick_var(scope, t)
        s = S("var", name=name, expr=self.expr(t, scope, 2), default=False, glob=False)
        scope.add(name.replace("_", "-"))
        return s

    def stmt(self, scope, ctx, depth):
        rng = self.rng
        k = rng.below(100)
        emits = ctx in ("rule", "mixin-in-rule")
        if k < 22 and emits:
            t = rng.choice(["n", "s", "n", "l", "b", "n"])
            e = self.expr(t, scope, 2)
            if rng.chance(0.05):
                e = ("null",)
            return [S("decl", prop=rng.choice(PROPS), expr=e)]
        if k < 45:
            t = rng.choice(["n", "n", "s", "b", "l", "m"])
            name = self.pick_var(scope, t)
            flags = rng.below(10)
            e = self.expr(t, scope, 2)
            both = flags == 2 and ctx != "root" and rng.chance(0.5)     # `!default !global` together
            st = S("var", name=name, expr=e, default=flags == 0 or both, glob=(flags == 1 and ctx != "root") or both)
            if both:
                pass        # may or may not assign, and only the global: nothing becomes certainly defined here
            elif not (flags == 0):
                scope.add(name.replace("_", "-"))
            elif name.replace("_", "-") in scope:
                pass
            else:
                scope.add(name.replace("_", "-"))
            return [st]
        if k < 55 and depth < 3:
            self.control_depth += 1
            clauses = [(self.expr("b", scope, 2), self.body(scope, ctx, rng.range(1, 2), depth + 1))]
            while rng.chance(0.3) and len(clauses) < 3:
                clauses.append((self.expr("b", scope, 1), self.body(scope, ctx, rng.range(1, 2), depth + 1)))
            els = self.body(scope, ctx, rng.range(1, 2), depth + 1) if rng.chance(0.5) else None
            self.control_depth -= 1
            return [S("if", clauses=clauses, els=els)]
        if k < 62 and depth < 3 and self.loop_depth < 2:
            var = self.pick_var(scope, "n", 0.6)
            a, b = rng.range(-1, 3), rng.range(-1, 4)
            self.loop_depth += 1
            self.control_depth += 1
            body = self.body(scope | {var}, ctx, rng.range(1, 3), depth + 1)
            self.control_depth -= 1
            self.loop_depth -= 1
            return [S("for", var=var, frm=("num", float(a), ""), to=("num", float(b), ""), through=rng.chance(0.5), body=body)]
        if k < 68 and depth < 3 and self.loop_depth < 2:
            self.loop_depth += 1
            self.control_depth += 1
            shape = rng.below(10)
            if shape < 5:
                var = self.pick_var(scope, "n", 0.6)
                e = self.expr("l", scope, 1)
                body = self.body(scope | {var}, ctx, rng.range(1, 3), depth + 1)
                st = S("each", vars=[var], expr=e, body=body)
            elif shape < 7:
                # destructuring over a list of lists: every item has at least two elements (the two typed variables are
                # always numbers); a third variable is `null` for the shorter items and is only ever inspected
                v1, v2 = self.pick_var(scope, "n", 0.6), self.pick_var(scope, "n", 0.8)
                xv = self.fresh("x") if rng.chance(0.5) else None
                items = []
                for _ in range(rng.range(1, 3)):
                    k = rng.range(2, 4)
                    items.append(("list", [self.expr("n", scope, 0) for _ in range(k)], rng.choice(["space", "space", "comma"]), rng.chance(0.2)))
                outer_sep = "comma" if any(i[2] == "comma" and not i[3] for i in items) or rng.chance(0.7) else "space"
                if outer_sep == "space" and len(items) == 1:
                    outer_sep = "comma"
                e = ("list", items, outer_sep, rng.chance(0.15))
                body = self.body(scope | {v1, v2}, ctx, rng.range(1, 2), depth + 1)
                if xv and self.allow_diag:
                    body.insert(0, S("debug", expr=("var", xv)))
                st = S("each", vars=[v1, v2] + ([xv] if xv else []), expr=e, body=body)
            else:
                kv, vv = self.pick_var(scope, "s", 0.7), self.pick_var(scope, "n", 0.7)
                e = self.expr("m", scope, 1)
                vars_ = [kv, vv] + ([self.fresh("x")] if rng.chance(0.15) else [])
                body = self.body(scope | {kv, vv}, ctx, rng.range(1, 3), depth + 1)
                st = S("each", vars=vars_, expr=e, body=body)
            self.loop_depth -= 1
            self.control_depth -= 1
            return [st]
        if k < 73 and depth < 3 and self.loop_depth < 1:
            # bounded while: counter declared just before, incremented as last statement of the body
            c = self.fresh("wctr")     # a name no random statement ever assigns (types are chosen by the first letter)
            lim = rng.range(1, 3)
            init = S("var", name=c, expr=("num", 0.0, ""), default=False, glob=False)
            self.loop_depth += 1
            self.control_depth += 1
            body = self.body(scope, ctx, rng.range(1, 2), depth + 1)
            self.control_depth -= 1
            self.loop_depth -= 1
            body.append(S("var", name=c, expr=("bin", "+", ("var", c), ("num", 1.0, "")), default=False, glob=False))
            return [init, S("while", cond=("bin", "<", ("var", c), ("num", float(lim), "")), body=body)]
        # (callables are declared at the root or directly inside a style rule — never inside control directives; one
        # declared in a rule is local to it, and closes over the rule's frame)
        if k < 79 and ctx in ("root", "rule") and depth < 2 and len(self.funcs) < 4 and self.control_depth == 0:
            return [self.gen_func(scope)]
        if k < 85 and ctx in ("root", "rule") and depth < 2 and len(self.mixins) < 4 and self.control_depth == 0:
            return [self.gen_mixin(scope)]
        if k < 92 and self.mixins and ctx in ("rule", "mixin-in-rule", "root") and self.call_depth < 2:
            return [self.gen_include(scope, ctx)]
        if k < 97 and self.allow_diag:
            kind = rng.choice(["debug", "debug", "warn", "warn", "debug"])
            t = rng.choice(["n", "s", "b", "l", "s"])
            if kind == "debug" and rng.chance(0.2):
                t = "m"
            return [S(kind, expr=self.expr(t, scope, 2))]
        if k < 98 and self.allow_diag and depth > 0:
            return [S("error", expr=self.expr(rng.choice(["s", "n", "l"]), scope, 1))]
        if ctx == "root" and not self.in_rule:
            return [self.gen_rule(scope)]
        return [self.simple(scope, "rule" if emits else ctx)]

    def gen_rule(self, scope):
        self.in_rule = True
        nf, nm = len(self.funcs), len(self.mixins)
        body = self.body(scope, "rule", self.rng.range(2, 5), 1)
        # callables declared inside the rule go out of scope with it
        del self.funcs[nf:]
        del self.mixins[nm:]
        self.in_rule = False
        return S("rule", selector=self.rng.choice(SELS), body=body)

    def gen_params(self, scope):
        rng = self.rng
        ps = []
        names = set()
        for i in range(rng.range(0, 3)):
            t = rng.choice(["n", "n", "s", "b"])
            pn = self.fresh(t + "p-")
            d = None
            if rng.chance(0.4):
                # defaults may refer to earlier parameters
                d = self.expr(t, scope | names, 1)
            elif any(p[2] for p in ps):
                d = self.expr(t, scope | names, 0)   # parameters after a defaulted one must have defaults too (keeps calls simple)
            ps.append((pn, t, d is not None, d))
            names.add(pn)
        rest = self.fresh("lrest-") if rng.chance(0.25) else None
        return ps, rest, names | ({rest} if rest else set())

    def gen_recursive_func(self, scope):
        """self-recursive function of one number: bounded by a guard on the argument (<= 0 or > 6 ends the recursion)"""
        rng = self.rng
        name = self.fresh("fn-")
        pn = self.fresh("np-")
        inner = scope | {pn}
        self.call_depth += 2           # no further calls inside (keeps the executed-statement count bounded)
        base = self.expr("n", inner, 1)
        step = self.expr("n", inner, 0)
        self.call_depth -= 2
        guard = ("bin", "or", ("bin", "<=", ("var", pn), ("num", 0.0, "")), ("bin", ">", ("var", pn), ("num", 6.0, "")))
        body = [S("if", clauses=[(guard, [S("return", expr=base)])], els=None)]
        if self.allow_diag and rng.chance(0.4):
            body.append(S("debug", expr=("var", pn)))
        if rng.chance(0.4):
            # a local of the same name in every activation: activations must not share frames
            loc = self.fresh("n")
            body.append(S("var", name=loc, expr=("bin", "*", ("var", pn), ("num", 2.0, "")), default=False, glob=False))
            step = ("bin", "+", step, ("var", loc))
        rec = ("call", name, [("bin", "-", ("var", pn), ("num", float(rng.choice([1, 1, 2, 1.5])), ""))], [], None)
        order = rng.chance(0.5)
        body.append(S("return", expr=("bin", rng.choice(["+", "-"]), rec if order else step, step if order else rec)))
        st = S("func", name=name, params=[(pn, None)], rest=None, body=body)
        self.funcs.append((name, "n", [(pn, "n", False)], None))
        return st

    def gen_func(self, scope):
        rng = self.rng
        if rng.chance(0.12):
            return self.gen_recursive_func(scope)
        ret = rng.choice(["n", "n", "s", "b"])
        ps, rest, names = self.gen_params(scope)
        name = self.fresh("fn-")
        inner = scope | names
        self.call_depth += 1
        body = []
        saved_diag = self.allow_diag
        for _ in range(rng.range(0, 3)):
            body.extend(self.stmt_func(inner, ret))
        body.append(S("return", expr=self.expr(ret, inner, 2)))
        self.call_depth -= 1
        self.allow_diag = saved_diag
        st = S("func", name=name, params=[(p[0], p[3]) for p in ps], rest=rest, body=body)
        self.funcs.append((name, ret, [(p[0], p[1], p[2]) for p in ps], rest))
        return st

    def stmt_func(self, scope, ret):
        rng = self.rng
        k = rng.below(10)
        if k < 4:
            t = rng.choice(["n", "s", "b"])
            name = self.pick_var(scope, t)
            st = S("var", name=name, expr=self.expr(t, scope, 2), default=False, glob=rng.chance(0.08))
            scope.add(name.replace("_", "-"))
            return [st]
        if k < 6:
            return [S("if", clauses=[(self.expr("b", scope, 2), [S("return", expr=self.expr(ret, scope, 1))])], els=None)]
        if k < 8 and self.loop_depth < 1:
            var = self.fresh("n")
            self.loop_depth += 1
            body = []
            if rng.chance(0.5):
                body.append(S("if", clauses=[(self.expr("b", scope | {var}, 1), [S("return", expr=self.expr(ret, scope | {var}, 1))])], els=None))
            acc = self.pick_var(scope, "n", 0.2)
            body.append(S("var", name=acc, expr=("bin", "+", ("var", var), ("num", 1.0, "")), default=False, glob=False))
            self.loop_depth -= 1
            return [S("for", var=var, frm=("num", 1.0, ""), to=("num", float(rng.range(1, 3)), ""), through=True, body=body)]
        if k < 9 and self.loop_depth < 1:
            # @each / @while in a function body with @return at different positions of the loop body: the first @return
            # reached ends the call, whatever iteration it is in; the iterations stay observable through the accumulator
            # (and through @debug when diagnostics are allowed here)
            self.loop_depth += 1
            acc = self.pick_var(scope, "n", 0.2)
            loop_body = []
            if rng.chance(0.5) and self.allow_diag:
                loop_body.append(S("debug", expr=("var", "PLACEHOLDER")))
            ret_stmt = S("return", expr=self.expr(ret, scope, 1))
            if rng.chance(0.6):
                it = self.fresh("n")
                loop_body = [S("debug", expr=("var", it)) if s.k == "debug" else s for s in loop_body]
                cond = ("bin", rng.choice([">", "==", ">="]), ("var", it), ("num", float(rng.choice([1, 2, 3])), ""))
                loop_body.append(S("if", clauses=[(cond, [ret_stmt])], els=None) if rng.chance(0.7) else ret_stmt)
                loop_body.append(S("var", name=acc, expr=("bin", "+", ("var", it), ("num", 1.0, "")), default=False, glob=False))
                items = [("num", float(v), "") for v in rng.sample([1, 2, 3, 4, 5], rng.range(2, 4))]
                st = [S("each", vars=[it], expr=("list", items, rng.choice(["space", "comma"]), False), body=loop_body)]
            else:
                c = self.fresh("wctr")
                loop_body = [S("debug", expr=("var", c)) if s.k == "debug" else s for s in loop_body]
                cond = ("bin", rng.choice([">", "==", ">="]), ("var", c), ("num", float(rng.choice([0, 1, 2])), ""))
                loop_body.append(S("if", clauses=[(cond, [ret_stmt])], els=None))
                loop_body.append(S("var", name=acc, expr=("bin", "+", ("var", c), ("num", 1.0, "")), default=False, glob=False))
                loop_body.append(S("var", name=c, expr=("bin", "+", ("var", c), ("num", 1.0, "")), default=False, glob=False))
                st = [S("var", name=c, expr=("num", 0.0, ""), default=False, glob=False),
                      S("while", cond=("bin", "<", ("var", c), ("num", float(rng.range(2, 4)), "")), body=loop_body)]
            self.loop_depth -= 1
            scope.add(acc.replace("_", "-"))
            return st
        if self.allow_diag:
            return [S(rng.choice(["debug", "warn"]), expr=self.expr(rng.choice(["n", "s"]), scope, 1))]
        return []

    def gen_mixin(self, scope):
        rng = self.rng
        ps, rest, names = self.gen_params(scope)
        name = self.fresh("mx-")
        inner = scope | names
        uses_content = rng.chance(0.4)
        using_n = rng.range(0, 2) if uses_content and rng.chance(0.4) else 0
        self.call_depth += 1
        body = self.body(inner, "mixin-in-rule", rng.range(1, 3), 2)
        if uses_content:
            body.insert(rng.below(len(body) + 1), S("content", args=[self.expr("n", inner, 1) for _ in range(using_n)]))
        self.call_depth -= 1
        st = S("mixin", name=name, params=[(p[0], p[3]) for p in ps], rest=rest, body=body)
        self.mixins.append((name, [(p[0], p[1], p[2]) for p in ps], rest, uses_content, using_n))
        return st

    def gen_include(self, scope, ctx):
        rng = self.rng
        name, ps, rest, uses_content, using_n = rng.choice(self.mixins)
        call = self.call_of((name, None, ps, rest), scope, 1)
        content = None
        using = None
        if uses_content and rng.chance(0.8):
            using_names = [self.fresh("nu-") for _ in range(using_n)]
            using = [(u, None) for u in using_names] or None
            self.call_depth += 1
            content = self.body(scope | set(using_names), "mixin-in-rule", rng.range(1, 2), 2)
            self.call_depth -= 1
        st = S("include", name=name, args=call[2], kwargs=call[3], rest=call[4], content=content, using=using)
        if ctx == "root":
            # mixins emit declarations: include them inside a rule
            self.in_rule = True
            r = S("rule", selector=rng.choice(SELS), body=[st])
            self.in_rule = False
            return r
        return st


def program(rng, size=30, allow_diag=True):
    g = Gen(rng, size, allow_diag)
    scope = set()
    prog = []
    # a few globals first so that references exist
    for t in ("n", "s", "b", "l", "m"):
        if rng.chance(0.8):
            name = g.fresh(t)
            prog.append(S("var", name=name, expr=g.expr(t, scope, 1), default=False, glob=False))
            scope.add(name)
    while g.budget > 0:
        g.budget -= 1
        k = rng.below(10)
        if k < 5:
            prog.append(g.gen_rule(scope))
        else:
            sts = g.stmt(scope, "root", 0)
            for st in sts:
                if st.k == "decl":
                    st = g.simple(scope, "root")
                prog.append(st)
    return prog
