"""Golden corpus: the test!/error! macro invocations of the repository's own test-suite, parsed at
run time from /repo/crates/lib/tests/*.rs (Rust string-literal lexer incl. raw strings, `\\`-newline
continuations, concat by adjacency is not used by the suite)."""
import glob
import os
import re

from . import build


def _lex_string(src, i):
    """src[i] is at the opening of a Rust string literal ("..." or r#"..."#). Returns (value, end)."""
    if src[i] == "r":
        j = i + 1
        hashes = 0
        while src[j] == "#":
            hashes += 1
            j += 1
        assert src[j] == '"'
        j += 1
        term = '"' + "#" * hashes
        k = src.index(term, j)
        return src[j:k], k + len(term)
    assert src[i] == '"'
    out = []
    j = i + 1
    n = len(src)
    while j < n:
        c = src[j]
        if c == '"':
            return "".join(out), j + 1
        if c == "\\":
            d = src[j + 1]
            if d == "n":
                out.append("\n"); j += 2
            elif d == "r":
                out.append("\r"); j += 2
            elif d == "t":
                out.append("\t"); j += 2
            elif d == "0":
                out.append("\0"); j += 2
            elif d == "\\":
                out.append("\\"); j += 2
            elif d == '"':
                out.append('"'); j += 2
            elif d == "'":
                out.append("'"); j += 2
            elif d == "x":
                out.append(chr(int(src[j + 2:j + 4], 16))); j += 4
            elif d == "u":
                k = src.index("}", j)
                out.append(chr(int(src[j + 3:k].replace("_", ""), 16))); j = k + 1
            elif d == "\n":
                j += 2
                while j < n and src[j] in " \t\n\r":
                    j += 1
            else:
                out.append(d); j += 2
        else:
            out.append(c); j += 1
    raise ValueError("unterminated string")


def _skip_ws_comments(src, i):
    n = len(src)
    while i < n:
        if src[i] in " \t\r\n":
            i += 1
        elif src.startswith("//", i):
            k = src.find("\n", i)
            i = n if k < 0 else k
        elif src.startswith("/*", i):
            k = src.find("*/", i)
            i = n if k < 0 else k + 2
        else:
            break
    return i


def _parse_macro(src, i):
    """i is just after `test!(` / `error!(`. Returns (attrs, name, input, expected, options_text, end) or None."""
    attrs = []
    i = _skip_ws_comments(src, i)
    while src[i] == "#":
        k = src.index("]", i)
        attrs.append(src[i:k + 1])
        i = _skip_ws_comments(src, k + 1)
        if src[i] == ",":
            i = _skip_ws_comments(src, i + 1)
    m = re.compile(r"[A-Za-z_][A-Za-z0-9_]*").match(src, i)
    if not m:
        return None
    name = m.group(0)
    i = _skip_ws_comments(src, m.end())
    if src[i] != ",":
        return None
    i = _skip_ws_comments(src, i + 1)
    if not (src[i] == '"' or (src[i] == "r" and src[i + 1] in '#"')):
        return None
    inp, i = _lex_string(src, i)
    i = _skip_ws_comments(src, i)
    if src[i] != ",":
        return None
    i = _skip_ws_comments(src, i + 1)
    if not (src[i] == '"' or (src[i] == "r" and src[i + 1] in '#"')):
        return None
    exp, i = _lex_string(src, i)
    i = _skip_ws_comments(src, i)
    opts = ""
    if src[i] == ",":
        j = _skip_ws_comments(src, i + 1)
        if src[j] != ")":
            depth = 0
            k = j
            while True:
                c = src[k]
                if c == "(":
                    depth += 1
                elif c == ")":
                    if depth == 0:
                        break
                    depth -= 1
                elif c == '"':
                    _, k = _lex_string(src, k)
                    continue
                k += 1
            opts = src[j:k].strip().rstrip(",").strip()
            i = k
        else:
            i = j
    if src[i] != ")":
        return None
    return attrs, name, inp, exp, opts, i + 1


def _opts_to_spec(opts):
    """Translate the options expression text of a test into worker spec keys (None = not expressible)."""
    spec = {}
    if not opts:
        return spec
    o = re.sub(r"\s+", "", opts)
    if not o.startswith("grass::Options::default()"):
        return None
    o = o[len("grass::Options::default()"):]
    for call in re.findall(r"\.([a-z_]+)\(([^()]*(?:\([^()]*\))?[^()]*)\)", o):
        k, v = call
        if k == "style":
            spec["style"] = "compressed" if "Compressed" in v else "expanded"
        elif k == "input_syntax":
            spec["syntax"] = "sass" if "Sass" in v else ("css" if "Css" in v else "scss")
        elif k == "allows_charset":
            spec["charset"] = v == "true"
        elif k == "unicode_error_messages":
            spec["unicode"] = v == "true"
        elif k == "quiet":
            spec["quiet"] = v == "true"
        else:
            return None
    return spec


_cache = None


def items(repo=None):
    """List of dicts: file, name, kind ('test'|'error'), input, expected, spec (options), ignored."""
    global _cache
    if _cache is not None:
        return _cache
    repo = repo or build.REPO
    out = []
    for path in sorted(glob.glob(os.path.join(repo, "crates/lib/tests/*.rs"))):
        base = os.path.basename(path)
        if base == "macros.rs":
            continue
        src = open(path, encoding="utf-8").read()
        for m in re.finditer(r"^\s*(test|error)!\(", src, re.M):
            try:
                r = _parse_macro(src, m.end())
            except (ValueError, IndexError, AssertionError):
                r = None
            if r is None:
                continue
            attrs, name, inp, exp, opts, _ = r
            spec = _opts_to_spec(opts)
            if spec is None:
                continue
            out.append({
                "file": base, "name": name, "kind": m.group(1), "input": inp, "expected": exp,
                "spec": spec, "ignored": any("ignore" in a for a in attrs),
            })
    _cache = out
    return out
