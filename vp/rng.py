"""Deterministic PRNG (splitmix64) so every case is reproducible from (seed, shard, index)."""
M64 = (1 << 64) - 1


def mix(x):
    x = (x + 0x9E3779B97F4A7C15) & M64
    z = x
    z = ((z ^ (z >> 30)) * 0xBF58476D1CE4E5B9) & M64
    z = ((z ^ (z >> 27)) * 0x94D049BB133111EB) & M64
    return z ^ (z >> 31)


class Rng:
    __slots__ = ("s",)

    def __init__(self, *keys):
        s = 0x1234567
        for k in keys:
            if isinstance(k, str):
                for ch in k.encode():
                    s = mix(s ^ ch)
            else:
                s = mix(s ^ (int(k) & M64))
        self.s = s

    def u64(self):
        self.s = (self.s + 0x9E3779B97F4A7C15) & M64
        z = self.s
        z = ((z ^ (z >> 30)) * 0xBF58476D1CE4E5B9) & M64
        z = ((z ^ (z >> 27)) * 0x94D049BB133111EB) & M64
        return z ^ (z >> 31)

    def below(self, n):
        return self.u64() % n if n > 0 else 0

    def range(self, a, b):
        """integer in [a, b] inclusive"""
        return a + self.below(b - a + 1)

    def chance(self, p):
        return (self.u64() >> 11) * (1.0 / (1 << 53)) < p

    def random(self):
        return (self.u64() >> 11) * (1.0 / (1 << 53))

    def choice(self, seq):
        return seq[self.below(len(seq))]

    def shuffle(self, lst):
        for i in range(len(lst) - 1, 0, -1):
            j = self.below(i + 1)
            lst[i], lst[j] = lst[j], lst[i]
        return lst

    def sample(self, seq, k):
        l = list(seq)
        self.shuffle(l)
        return l[:k]

    def fork(self, *keys):
        return Rng(self.u64(), *keys)
