"""Shared run-time of all property monitors: sharded execution, three-valued verdict
bookkeeping, known-finding classification, evidence and replay files."""
import collections
import hashlib
import json
import multiprocessing as mp
import os
import sys
import time
import traceback

from . import build, findings, worker
from .rng import Rng

VERIF = build.VERIF
# where evidence/ and replay/ are written (redirected for self-validation runs against mutants)
OUT = os.environ.get("VERIF_OUT", VERIF)
NCPU = min(16, os.cpu_count() or 1)


def pack(obj):
    """opaque, exact serialisation of a generated case for replay files (the human-readable form is stored next to it)"""
    import base64, pickle, zlib
    return base64.b64encode(zlib.compress(pickle.dumps(obj, protocol=4))).decode("ascii")


def unpack(text):
    import base64, pickle, zlib
    return pickle.loads(zlib.decompress(base64.b64decode(text)))


def rejudge(sh, fn):
    """run `fn` (which re-evaluates one stored case through the property's own judge) and turn what it reported into a
    replay verdict: violated (also for a listed known finding: it is reproduced) / inconclusive / held"""
    before = len(sh.violations) + sum(sh.known.values())
    inc = sum(sh.inconclusive.values())
    fn()
    for v in sh.violations.values():
        print("  " + v["sig"] + ": " + v["msg"][:1500].replace("\n", "\n  "))
    for k, ex in sh.known_examples.items():
        print("  known finding %s: %s" % (k, (ex.get("msg") or "")[:600].replace("\n", "\n  ")))
    if len(sh.violations) + sum(sh.known.values()) > before:
        return "violated"
    if sum(sh.inconclusive.values()) > inc:
        print("  inconclusive: %s" % dict(sh.inconclusive))
        return "inconclusive"
    return "held"


def h64(obj):
    if not isinstance(obj, (bytes, str)):
        obj = json.dumps(obj, sort_keys=True, default=str)
    if isinstance(obj, str):
        obj = obj.encode("utf-8", "surrogatepass")
    return int.from_bytes(hashlib.blake2b(obj, digest_size=8).digest(), "big")


class Shard:
    """Context handed to a property's run(sh). One per process; owns its workers."""

    MAX_VIOL = 40
    MAX_DISTINCT = 3_000_000

    def __init__(self, prop, tier, seed, shard, nshards, bins, budget_s, params):
        self.prop = prop
        self.tier = tier
        self.seed = seed
        self.shard = shard
        self.nshards = nshards
        self.bins = bins
        self.params = params
        self.rng = Rng(seed, prop, shard)
        self.t0 = time.monotonic()
        self.t_end = self.t0 + budget_s
        self.evaluations = 0
        self.counters = collections.Counter()
        self.distinct = set()
        self.samples = []
        self.violations = {}
        self.known = collections.Counter()
        self.known_examples = {}
        self.inconclusive = collections.Counter()
        self._workers = {}
        # round bookkeeping: every call of expired() is a round boundary. Generation depends only on
        # (seed, property, shard) and the round number, so a violation can be replayed by re-running its shard up to
        # the round in which it was observed (replay_target), independent of wall-clock time.
        self.round = 0
        self.replay_target = None
        self.known_sigs = set()

    # -- workers ----------------------------------------------------
    def worker(self, profile="R", **kw):
        key = (profile, json.dumps(kw, sort_keys=True, default=str))
        w = self._workers.get(key)
        if w is None:
            w = worker.Worker(self.bins[profile], **kw)
            self._workers[key] = w
        return w

    @property
    def w(self):
        # (a property whose inputs can make the compiler run away sets params["worker_timeout"]: one runaway input then
        # costs that many seconds instead of the default 20 — it is inconclusive either way)
        t = self.params.get("worker_timeout") if isinstance(self.params, dict) else None
        return self.worker("R", timeout=t) if t else self.worker("R")

    def close(self):
        for w in self._workers.values():
            self.counters["worker_spawns"] += w.spawns
            self.counters["worker_deaths"] += w.deaths
            self.counters["worker_timeouts"] += w.timeouts
            w.close()

    # -- bookkeeping -------------------------------------------------
    def time_left(self):
        return self.t_end - time.monotonic()

    def expired(self):
        self.round += 1
        if self.replay_target is not None:
            return self.round > self.replay_target
        # an operation cap (plan["max_evaluations"], shared evenly by the shards) ends a run before its time budget on a
        # fast machine, so that the volume reported in the evidence does not depend on how fast the machine happens to be
        cap = self.params.get("_max_eval") if isinstance(self.params, dict) else None
        if cap and self.evaluations >= cap / self.nshards:
            return True
        return time.monotonic() >= self.t_end

    def past(self, fraction):
        """has this share of the time budget been used? (fixed strata such as the corpus pass stop here so that the
        generated strata always get the rest)"""
        if self.replay_target is not None:
            return False
        return time.monotonic() >= self.t0 + fraction * (self.t_end - self.t0)

    def ev(self, n=1):
        self.evaluations += n

    def count(self, name, n=1):
        self.counters[name] += n

    def nontrivial(self, case):
        if len(self.distinct) < self.MAX_DISTINCT:
            self.distinct.add(h64(case))

    def sample(self, obj, cap=4):
        if len(self.samples) < cap:
            self.samples.append(obj)

    def inconc(self, reason, n=1):
        self.inconclusive[reason] += n

    def violation(self, sig, msg, replay, facts=None):
        """Report an observed refutation. `sig` is a stable signature used for de-duplication
        and for matching known findings; `facts` are the observations classifiers look at."""
        facts = facts or {}
        kf = findings.classify(self.prop, sig, facts, replay)
        where = {"shard": self.shard, "nshards": self.nshards, "round": self.round}
        if kf is not None:
            self.known[kf] += 1
            if len(self.known_sigs) < 100000:
                self.known_sigs.add(sig)
            if kf not in self.known_examples:
                self.known_examples[kf] = {"sig": sig, "msg": msg, "replay": replay, "where": where}
            return False
        if sig not in self.violations and len(self.violations) < self.MAX_VIOL:
            self.violations[sig] = {"sig": sig, "msg": msg, "replay": replay, "facts": facts, "where": where}
        self.counters["violating_observations"] += 1
        return True

    def summary(self):
        return {
            "shard": self.shard,
            "evaluations": self.evaluations,
            "counters": dict(self.counters),
            "distinct": self.distinct,
            "samples": self.samples,
            "violations": self.violations,
            "known": dict(self.known),
            "known_examples": self.known_examples,
            "inconclusive": dict(self.inconclusive),
            "wall": time.monotonic() - self.t0,
        }


def _shard_main(args):
    mod_name, prop, tier, seed, shard, nshards, bins, budget_s, params = args
    import importlib

    mod = importlib.import_module(mod_name)
    sh = Shard(prop, tier, seed, shard, nshards, bins, budget_s, params)
    err = None
    try:
        mod.run(sh)
    except Exception:
        err = traceback.format_exc()
    finally:
        sh.close()
    s = sh.summary()
    s["error"] = err
    return s


def round_replay(mod, payload, bins, params):
    w = payload.get("where")
    if not w:
        print("(replay file predates round bookkeeping: no shard/round recorded)")
        return "inconclusive"
    sh = Shard(payload["property"], payload["tier"], payload["seed"], w["shard"], w["nshards"], bins, 24 * 3600, params)
    sh.replay_target = w["round"]
    print("re-running shard %d/%d of seed %d (tier %s) up to round %d ..." % (w["shard"], w["nshards"], payload["seed"], payload["tier"], w["round"]))
    err = None
    try:
        mod.run(sh)
    except Exception:
        err = traceback.format_exc()
    finally:
        sh.close()
    if err:
        print(err)
        return "inconclusive"
    sig = payload["sig"]
    if sig in sh.violations:
        v = sh.violations[sig]
        print("  " + sig + ": " + v["msg"][:1500].replace("\n", "\n  "))
        return "violated"
    if sig in sh.known_sigs:
        print("  reproduced; classified as a known finding")
        return "violated"
    print("  the recorded observation did not recur (%d rounds, %d evaluations re-run)" % (sh.round, sh.evaluations))
    return "held"


def run_property(mod, tier, seed, replay=None):
    """Build what the property needs from the current tree, run its shards, merge, write
    evidence, print KNOWN-FINDING / VIOLATION lines. Returns the process exit code."""
    prop = mod.ID
    t0 = time.time()
    if replay is not None:
        try:
            _p = json.load(open(replay))
            tier, seed = _p.get("tier", tier), _p.get("seed", seed)
        except (OSError, ValueError) as e:
            print("BROKEN: cannot read replay file: %s" % e)
            return 2
    plan = mod.plan(tier)
    nshards = plan.get("nshards", NCPU)
    budget_s = plan.get("budget_s", 60)
    profiles = plan.get("profiles", ["R"])
    try:
        bins = {}
        for p in profiles:
            if p in ("R", "D"):
                bins[p] = build.build_worker(p)
            elif p in ("asan", "tsan"):
                bins[p] = build.build_worker_san(p)
            elif p == "cli":
                bins[p] = build.build_cli(False)
            elif p == "cli-release":
                bins[p] = build.build_cli(True)
    except build.BuildError as e:
        print("BROKEN: %s" % e)
        return 2
    params = plan.get("params", {})
    if hasattr(mod, "prepare"):
        params = mod.prepare(tier, seed, bins, params) or params
    if plan.get("max_evaluations") and isinstance(params, dict):
        params = dict(params, _max_eval=plan["max_evaluations"])

    if replay is not None:
        payload = json.load(open(replay))
        sh = Shard(prop, tier, seed, 0, 1, bins, 600, params)
        try:
            verdict = mod.replay(sh, payload)
        except Exception:
            # a payload shape the property's own replay does not know: use the round-level replay
            verdict = "unknown (%s)" % traceback.format_exc().strip().split("\n")[-1]
        finally:
            sh.close()
        if not verdict.startswith(("violated", "held", "inconclusive")):
            # the property has no case-level replay: re-run the recorded shard up to the recorded round
            verdict = round_replay(mod, payload, bins, params)
        print("replay verdict: %s" % verdict)
        return 1 if verdict == "violated" else (2 if verdict == "inconclusive" else 0)

    args = [(mod.__name__, prop, tier, seed, i, nshards, bins, budget_s, params) for i in range(nshards)]
    if nshards == 1:
        results = [_shard_main(args[0])]
    else:
        with mp.get_context("fork").Pool(min(nshards, plan.get("procs", NCPU))) as pool:
            results = pool.map(_shard_main, args, chunksize=1)

    errors = [r["error"] for r in results if r["error"]]
    evaluations = sum(r["evaluations"] for r in results)
    counters = collections.Counter()
    known = collections.Counter()
    inconc = collections.Counter()
    distinct = set()
    samples = []
    violations = {}
    known_examples = {}
    for r in results:
        counters.update(r["counters"])
        known.update(r["known"])
        inconc.update(r["inconclusive"])
        distinct |= r["distinct"]
        for s in r["samples"]:
            if len(samples) < 6:
                samples.append(s)
        for k, v in r["violations"].items():
            violations.setdefault(k, v)
        for k, v in r["known_examples"].items():
            known_examples.setdefault(k, v)

    extra = {}
    if hasattr(mod, "finalize"):
        extra = mod.finalize(tier, counters, params) or {}

    # replay files
    viol_lines = []
    rdir = os.path.join(OUT, "replay", prop)
    for sig, v in sorted(violations.items()):
        os.makedirs(rdir, exist_ok=True)
        path = os.path.join(rdir, "%016x.json" % h64(sig))
        with open(path, "w") as f:
            json.dump({"property": prop, "sig": sig, "msg": v["msg"], "seed": seed, "tier": tier, "where": v.get("where"),
                       "facts": v.get("facts"), "replay": v["replay"]}, f, indent=1, default=str)
        viol_lines.append((sig, v["msg"], path))

    wall = time.time() - t0
    coverage = {
        "evaluations": evaluations,
        "distinct_nontrivial": len(distinct),
        "rule": mod.RULE,
        "samples": samples,
        "observed": {k: v for k, v in sorted(counters.items())},
        "inconclusive": dict(inconc),
        "known_findings_hit": dict(known),
        "shards": nshards,
        "profiles": profiles,
    }
    coverage.update(extra.get("coverage", {}))
    ev = {
        "property_id": prop,
        "tier": tier,
        "seed": seed,
        "level": "exploration",
        "coverage": coverage,
        "assumptions": getattr(mod, "ASSUMPTIONS", []) + extra.get("assumptions", []),
        "wall_s": round(wall, 2),
        "violations": len(violations),
    }
    os.makedirs(os.path.join(OUT, "evidence"), exist_ok=True)
    with open(os.path.join(OUT, "evidence", prop + ".json"), "w") as f:
        json.dump(ev, f, indent=1, default=str)

    print("%s tier=%s seed=%d evaluations=%d distinct_nontrivial=%d wall=%.1fs" % (
        prop, tier, seed, evaluations, len(distinct), wall))
    for k, v in sorted(counters.items()):
        print("  observed %-40s %d" % (k, v))
    for k, v in sorted(inconc.items()):
        print("  inconclusive %-36s %d" % (k, v))
    for kf, n in sorted(known.items()):
        ex = known_examples.get(kf, {})
        print("KNOWN-FINDING: property=%s %s [%s] (%d observations; e.g. %s)" % (
            prop, findings.title(kf), kf, n, (ex.get("msg") or "")[:160].replace("\n", "\\n")))
    for sig, msg, path in viol_lines:
        print("VIOLATION property=%s replay=%s" % (prop, path))
        print("  " + sig + ": " + msg[:600].replace("\n", "\n  "))
    if errors:
        print("BROKEN: monitor raised an exception in %d shard(s):\n%s" % (len(errors), errors[0]))
        return 2
    if viol_lines:
        return 1
    min_ev = plan.get("min_evaluations", 1)
    if evaluations < min_ev or len(distinct) < 2:
        print("BROKEN: observed too little (evaluations=%d, distinct_nontrivial=%d)" % (evaluations, len(distinct)))
        return 2
    return 0
