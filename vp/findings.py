"""Known findings: committed list of genuine defects that are recorded rather than repaired.
Never written at run time. An entry suppresses a violation only if it is `open` and its
classifier accepts the observation; `fixed` entries suppress nothing."""
import json
import os
import re

_PATH = os.path.join(os.path.dirname(os.path.dirname(os.path.abspath(__file__))), "known_findings.json")
_cache = None


def load():
    global _cache
    if _cache is None:
        try:
            _cache = json.load(open(_PATH))["findings"]
        except FileNotFoundError:
            _cache = []
    return _cache


def title(fid):
    for f in load():
        if f["id"] == fid:
            return f["title"]
    return fid


def _m(rx, s):
    return re.search(rx, s if isinstance(s, str) else json.dumps(s, default=str), re.S) is not None


def classify(prop, sig, facts, replay):
    for f in load():
        if f.get("status") != "open" or f["property"] != prop:
            continue
        m = f["match"]
        if "sig" in m and not _m(m["sig"], sig):
            continue
        ok = True
        for k, rx in m.get("facts", {}).items():
            if k not in facts or not _m(rx, facts[k]):
                ok = False
                break
        for k, rx in m.get("facts_not", {}).items():
            if k in facts and _m(rx, facts[k]):
                ok = False
                break
        if ok and "equal" in m:
            a, b = (facts.get(k) for k in m["equal"])
            ok = a is not None and a == b
        if ok and "permutation" in m:
            a, b = (facts.get(k) for k in m["permutation"])
            ok = a is not None and b is not None and _tokens(a) == _tokens(b)
        if ok:
            return f["id"]
    return None


def _tokens(x):
    """multiset of tokens of an observation (order-insensitive view used by 'permutation' matchers)"""
    s = x if isinstance(x, str) else json.dumps(x, default=str, sort_keys=True)
    return sorted(re.findall(r"[A-Za-z0-9_$%#-]+|[^\sA-Za-z0-9_$%#-]", s))
