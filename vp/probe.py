"""Evaluate many SassScript expressions through the worker's `vp-emit` probe and get structured values back."""
import struct

PRELUDE = ('@use "sass:math"; @use "sass:list"; @use "sass:map"; @use "sass:string"; @use "sass:color"; '
           '@use "sass:selector"; @use "sass:meta";\n')


def f64(bits):
    return struct.unpack(">d", bytes.fromhex(bits))[0]


def num(v):
    """(float, numer units tuple, denom units tuple) of a probe number dump"""
    return f64(v["bits"]), tuple(v["nu"]), tuple(v["du"])


def _sheet(exprs, prelude, extra_decls):
    lines = [PRELUDE, prelude, "a {"]
    lines.append(extra_decls)
    for i, e in enumerate(exprs):
        lines.append("$_: vp-emit(%d, %s);" % (i, e))
    lines.append("}")
    return "\n".join(lines)


def eval_many(w, exprs, prelude="", extra_decls="", style="expanded", _depth=0):
    """-> list of ('ok', dump) | ('err', message) | ('panic', msg) | ('other', repr), one per expression.
    Expressions are batched in one stylesheet; on failure the batch is bisected so that every expression
    gets its own verdict."""
    if not exprs:
        return []
    res = w.compile({"text": _sheet(exprs, prelude, extra_decls), "style": style, "budgets": {"steps": 2000000}})
    if "ok" in res:
        got = {}
        for rec in res.get("probe", []):
            if len(rec) >= 2 and rec[0].get("t") == "n":
                got[int(f64(rec[0]["bits"]))] = rec[1] if len(rec) == 2 else {"t": "multi", "v": rec[1:]}
            elif len(rec) == 1 and rec[0].get("t") == "n":
                got[int(f64(rec[0]["bits"]))] = {"t": "none"}
        return [("ok", got.get(i, {"t": "missing"})) for i in range(len(exprs))]
    if len(exprs) == 1:
        if "err" in res:
            return [("err", res["err"].get("msg", ""))]
        if "panic" in res:
            return [("panic", res["panic"].get("msg", "") + " @ " + res["panic"].get("loc", ""))]
        return [("other", str(res)[:200])]
    mid = len(exprs) // 2
    return eval_many(w, exprs[:mid], prelude, extra_decls, style, _depth + 1) + \
        eval_many(w, exprs[mid:], prelude, extra_decls, style, _depth + 1)


def eval_each(w, exprs, prelude="", style="expanded"):
    """like eval_many but one compilation per expression (for expressions expected to fail)"""
    out = []
    for base in range(0, len(exprs), 64):
        chunk = exprs[base:base + 64]
        rs = w.batch([{"text": _sheet([e], prelude, ""), "style": style, "budgets": {"steps": 2000000}} for e in chunk])
        for r in rs:
            if "ok" in r:
                p = r.get("probe") or []
                if p and len(p[0]) >= 2:
                    out.append(("ok", p[0][1] if len(p[0]) == 2 else {"t": "multi", "v": p[0][1:]}))
                else:
                    out.append(("ok", {"t": "missing"}))
            elif "err" in r:
                out.append(("err", r["err"].get("msg", "")))
            elif "panic" in r:
                out.append(("panic", r["panic"].get("msg", "") + " @ " + r["panic"].get("loc", "")))
            else:
                out.append(("other", str(r)[:200]))
    return out
