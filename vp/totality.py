"""Judge one execution for totality (C01 and the 'never crashes' clauses of other properties)."""
import re

from .worker import sigdesc


def panic_sig(p):
    loc = p.get("loc", "")
    f = loc.rsplit(":", 1)[0]
    f = f.split("/crates/")[-1] if "/crates/" in f else f.split("/")[-1]
    msg = p.get("msg", "")
    msg = msg.split("\n")[0]
    msg = re.sub(r'\\+x[0-9A-Fa-f]{2}', "X", msg)
    msg = re.sub(r'"[^"]*"', '"S"', msg)
    msg = re.sub(r"\d+", "N", msg)
    return "%s:%s" % (f, msg[:70])


def classify(res, input_len=0):
    """Returns (verdict, sig, detail): verdict in held|violated|excluded|inconclusive."""
    if not isinstance(res, dict):
        return "inconclusive", "bad-response", str(res)[:100]
    if "timeout" in res:
        return "inconclusive", "watchdog", "wall-clock watchdog fired without a step-budget verdict"
    if "died" in res:
        return "violated", "process-died:" + sigdesc(res["died"]), "worker process died (%s)" % sigdesc(res["died"])
    if "thread_panicked" in res:
        return "violated", "thread-panicked", "compilation thread panicked outside catch_unwind"
    if "panic" in res:
        p = res["panic"]
        msg = p.get("msg", "")
        if msg.startswith("VERIF-BUDGET"):
            which = msg.split()[-1]
            if which == "parse_stall":
                return "violated", "hang:parse_stall", "parser read the lexer without progress beyond 1000+64*len(buffer) times (steps=%s)" % res.get("steps")
            if which == "lexer_reads":
                if input_len <= 8192:
                    return "violated", "hang:lexer_reads", "total lexer reads exceeded 2e8 on a %d-byte input" % input_len
                return "inconclusive", "lexer_reads-large-input", ""
            return "excluded", "stylesheet-unbounded:" + which, ""
        return "violated", "panic:" + panic_sig(p), "panic at %s: %s" % (p.get("loc"), msg[:300])
    if "err" in res:
        e = res["err"]
        if e.get("kind") == "kind_panicked":
            return "violated", "error-kind-panics:" + panic_sig(e.get("panic") or {}), "Error::kind() panicked: %s" % e.get("panic")
        if isinstance(e.get("disp"), dict):
            return "violated", "error-display-panics:" + panic_sig(e["disp"].get("panic") or {}), "Display of the error panicked: %s" % e["disp"]
        if e.get("kind") not in ("parse", "io", "utf8"):
            return "violated", "error-kind-unknown", str(e)[:200]
        return "held", "err", ""
    if "ok" in res or "ok_hex" in res:
        return "held", "ok", ""
    return "inconclusive", "empty-response", str(res)[:100]
