"""C13 — imports follow the documented search order, only via the supplied Fs.
(a) resolution: the file whose marker reaches the output must be the one vp/model/imports.py chooses (or both fail);
(b) confinement: every Fs call recorded by the harness' in-memory Fs must be a candidate of the documented search for
that URL/location, and only the entry and the chosen file may be read; (c) isolation: the worker's real working
directory is populated with decoy files that would win the search if the real disk were consulted; (d) plain-CSS
imports are emitted, Sass imports loaded; (e) a missing import is an error located at the import site."""
import os
import posixpath
import re
import shutil
import tempfile

from ..model import imports as M

ID = "C13"
RULE = ("virtual directory trees (depth <= 3) populated with random subsets of the candidate names per location (partials, "
        "index files, the three extensions, import-only files, dotted basenames, decoy look-alikes), URL forms (a, a/b, ../a, "
        "./a, a.scss, a.css, dotted), 0-3 load paths, importing file at the root or in a sub-directory, via @import, @use and "
        "@forward; each candidate file carries a marker naming itself, written in the syntax its extension implies; layouts "
        "with two same-priority candidates in one location are not generated; real-disk decoys in the worker's cwd. "
        "non-trivial = at least two candidate files exist in the tree; distinct = distinct (tree, URL, directive, load paths).")
ASSUMPTIONS = ["paths are relative virtual paths; the harness Fs normalises `.`/`..` like a real file system",
               "thorough tier additionally runs a sample under strace to see that no file-system syscall happens during a compilation"]


def plan(tier):
    return {"budget_s": 50 if tier == "quick" else 500, "profiles": ["R"], "min_evaluations": 2000}


def marker(path):
    ext = posixpath.splitext(path)[1]
    if ext == ".sass":
        return '.m\n  f: "%s"\n' % path
    return '.m { f: "%s"; }\n' % path


def gen_case(rng):
    name = rng.choice(["a", "foo", "foo.bar", "x-y", "b.c.d"])
    sub = rng.choice(["", "", "sub/", "sub/deep/"])
    url_forms = [name, "./" + name, name + ".scss", name + ".sass", name + ".css"]
    how = rng.choice(["@import", "@import", "@use", "@forward"])
    importer = rng.choice(["main.scss", "dir/main.scss"])
    url = sub + rng.choice(url_forms)
    if rng.chance(0.15) and importer.startswith("dir/"):
        url = "../" + url
    load_paths = rng.sample(["lp1", "lp2", "dir/lp3"], rng.range(0, 3))
    # candidate files
    files = {}
    locations = [posixpath.dirname(importer)] + load_paths
    stem = url
    for e in M.EXTS:
        if stem.endswith(e):
            stem = stem[:-len(e)]
    for loc in locations:
        base = posixpath.normpath(posixpath.join(loc, stem))
        if base.startswith(".."):
            continue
        d, b = posixpath.split(base)
        groups = [
            [posixpath.join(d, b + ".import.sass"), posixpath.join(d, b + ".import.scss"), posixpath.join(d, "_" + b + ".import.scss")],
            [posixpath.join(d, b + ".import.css")],
            [posixpath.join(d, b + ".sass"), posixpath.join(d, b + ".scss"), posixpath.join(d, "_" + b + ".sass"), posixpath.join(d, "_" + b + ".scss")],
            [posixpath.join(d, b + ".css"), posixpath.join(d, "_" + b + ".css")],
            [posixpath.join(base, "index.scss"), posixpath.join(base, "_index.scss"), posixpath.join(base, "index.sass"), posixpath.join(base, "_index.sass")],
            [posixpath.join(base, "index.css")],
            [posixpath.join(base, "index.import.scss")],
        ]
        for g in groups:
            if rng.chance(0.22):
                f = rng.choice(g)       # at most one per same-priority group: never ambiguous
                files[f] = marker(f)
        # look-alikes that are never candidates
        for decoy in (b + ".scss.bak", b + "..importscss", "_" + b + ".txt", b.split(".")[0] + ".scss" if "." in b else b + "x.scss", b + ".SCSS"):
            if rng.chance(0.1):
                f = posixpath.join(d, decoy)
                files.setdefault(f, marker(f))
    if rng.chance(0.1):
        # a .css candidate that contains Sass-only syntax must be rejected, not silently accepted
        for f in list(files):
            if f.endswith(".css") and rng.chance(0.5):
                files[f] = "$x: 1;\n" + files[f]
    entry_text = '/* é */\n%s "%s";\n.after { k: v; }\n' % (how, url)
    files[importer] = entry_text
    return {"how": how, "url": url, "importer": importer, "load_paths": load_paths, "files": files}


def gen_multi(rng):
    """the same URL text imported from files in different directories of one compilation: every site must be
    resolved relative to *its* importing file first"""
    how = rng.choice(["@import", "@use"])
    name = rng.choice(["leaf", "x.y", "colors"])
    dirs = rng.sample(["d1", "d2", "d3"], rng.range(2, 3))
    load_paths = rng.sample(["lp1", "lp2"], rng.range(0, 2))
    files = {}
    lines = []
    for i, d in enumerate(dirs):
        lines.append('%s "%s/mid"%s;' % (how, d, (" as m%d" % i) if how == "@use" else ""))
        files["%s/_mid.scss" % d] = '%s "%s";\n.mid-%s { k: v; }\n' % (how, name, d)
        if rng.chance(0.6):
            f = "%s/%s" % (d, rng.choice(["_%s.scss", "%s.scss", "%s.sass", "_%s.sass"]) % name)
            files[f] = marker(f)
    for lp in load_paths:
        if rng.chance(0.6):
            f = "%s/%s" % (lp, rng.choice(["_%s.scss", "%s.scss"]) % name)
            files[f] = marker(f)
    files["main.scss"] = "\n".join(lines) + "\n"
    return {"multi": True, "how": how, "url": name, "dirs": dirs, "importer": "main.scss", "load_paths": load_paths, "files": files}


def judge_multi(sh, case, res):
    sh.ev()
    how, name, dirs, lps, files = case["how"], case["url"], case["dirs"], case["load_paths"], case["files"]
    from ..core import h64
    h = "%016x" % h64(str(sorted(files.items())) + str(lps))
    rp = {"case": case}
    facts = {"directive": "%s \"%s\" from %s" % (how, name, ["%s/_mid.scss" % d for d in dirs]), "load_paths": lps, "files": sorted(files)}
    names = set(posixpath.normpath(f) for f in files)
    want = []
    missing = False
    for d in dirs:
        chosen, _, _ = M.resolve(name, "%s/_mid.scss" % d, lps, names, how == "@import")
        if chosen is None:
            missing = True
            break
        if how == "@use" and chosen in want:
            continue          # a module is loaded (and its CSS emitted) once
        want.append(chosen)
    if missing:
        if "err" not in res:
            sh.violation("multi-should-fail:" + h, "one importing site has no candidate but the compilation succeeded: %s\n%s" % (facts["directive"], (res.get("ok") or "")[:300]), rp, facts)
        else:
            sh.count("agree_multi_not_found")
            sh.nontrivial(h)
        return
    if "ok" not in res:
        sh.violation("multi-should-resolve:" + h, "every site has a candidate (%s) but grass fails: %s" % (want, (res.get("err") or {}).get("msg")), rp, dict(facts, model=want))
        return
    import re
    got = re.findall(r'f: "([^"]+)"', res["ok"])
    if got != want:
        sh.violation("multi-wrong-files:" + h, "%s: the documented search selects %s for the successive importing sites, the output carries %s" % (facts["directive"], want, got), rp, dict(facts, model=want, got=got))
        return
    sh.count("agree_multi_resolved")
    sh.nontrivial(h)


def judge(sh, case, res):
    if case.get("multi"):
        return judge_multi(sh, case, res)
    sh.ev()
    how, url, importer, lps, files = case["how"], case["url"], case["importer"], case["load_paths"], case["files"]
    from ..core import h64
    h = "%016x" % h64(str(sorted(files)) + how + url + importer + str(lps))
    rp = {"case": case}
    facts = {"directive": "%s \"%s\"" % (how, url), "importer": importer, "load_paths": lps, "files": sorted(f for f in files if f != importer)}
    for_import = how == "@import"
    names = set(posixpath.normpath(f) for f in files if f != importer)
    plain_css = for_import and (url.endswith(".css"))
    if "fd12" in res:
        sh.violation("stdio:" + h, "library wrote to stdout/stderr: %r" % res["fd12"][:100], rp, facts)
        return
    trace = res.get("fs", [])
    reads = [posixpath.normpath(t[1]) for t in trace if t[0] == "read"]
    probes = [(t[0], posixpath.normpath(t[1])) for t in trace if t[0] in ("is_file", "is_dir")]
    if plain_css:
        # emitted as a CSS @import, nothing loaded
        if "ok" not in res or "@import" not in res["ok"] or any(r != posixpath.normpath(importer) for r in reads):
            sh.violation("plain-css-import-loaded:" + h, "`@import \"%s\"` must be emitted as plain CSS @import without touching the Fs\nresult: %s\nreads: %s" % (
                url, (res.get("ok") or res.get("err", {}).get("msg")), reads), rp, dict(facts, reads=reads))
        else:
            sh.count("plain_css_import_emitted")
            sh.nontrivial(h)
        return
    chosen, cands, stat_dirs = M.resolve(url, importer, lps, names, for_import)
    sass_in_css = chosen is not None and chosen.endswith(".css") and files.get(chosen, "").startswith("$x")
    # (b) confinement
    allowed = cands | {posixpath.normpath(importer)}
    for op, p in probes:
        if op == "is_file" and p not in allowed:
            sh.violation("non-candidate-probed:" + h, "is_file(%r) is not a candidate of the documented search for %s \"%s\" from %s with load paths %s" % (p, how, url, importer, lps), rp, dict(facts, probe=p))
            return
        if op == "is_dir" and p not in stat_dirs and p not in allowed:
            sh.violation("non-candidate-dir-probed:" + h, "is_dir(%r) is outside the documented search for %s \"%s\"" % (p, how, url), rp, dict(facts, probe=p))
            return
    for r in reads:
        if r != posixpath.normpath(importer) and r != chosen:
            sh.violation("wrong-file-read:" + h, "read(%r) but the documented search selects %r for %s \"%s\"" % (r, chosen, how, url), rp, dict(facts, read=r, model=chosen))
            return
    # (a) resolution
    if chosen is None or sass_in_css:
        if "err" not in res:
            what = "a .css file containing Sass-only syntax was accepted" if sass_in_css else "no candidate exists but the import succeeded"
            sh.violation("should-fail:" + h, "%s: %s \"%s\" -> %s" % (what, how, url, (res.get("ok") or "")[:200]), rp, dict(facts, model=chosen))
            return
        e = res["err"]
        if chosen is None:
            # (e) error at the import site: file = importer, line of the directive (line index 1)
            if e.get("kind") != "parse" or posixpath.normpath(e.get("file", "")) != posixpath.normpath(importer) or e.get("bl") != 1:
                sh.violation("missing-import-not-located:" + h, "missing import must be an error at the import site (%s line 2); got %s" % (importer, {k: e.get(k) for k in ("kind", "file", "bl", "msg")}), rp, dict(facts, err=str(e)[:300]))
                return
        sh.count("agree_not_found" if chosen is None else "agree_sass_in_css_rejected")
        sh.nontrivial(h)
        return
    if "ok" not in res:
        sh.violation("should-resolve:" + h, "the documented search selects %r for %s \"%s\" (importer %s, load paths %s) but grass fails: %s" % (
            chosen, how, url, importer, lps, (res.get("err") or {}).get("msg")), rp, dict(facts, model=chosen, error=(res.get("err") or {}).get("msg")))
        return
    want_marker = 'f: "%s"' % chosen
    css = res["ok"]
    if how == "@forward" and want_marker not in css:
        # @forward also emits the module's CSS
        pass
    if want_marker not in css:
        got = [l.strip() for l in css.split("\n") if l.strip().startswith("f:")]
        sh.violation("wrong-file:" + h, "the documented search selects %r for %s \"%s\" (importer %s, load paths %s) but the output carries %s" % (
            chosen, how, url, importer, lps, got or "no marker"), rp, dict(facts, model=chosen, output=css[:300]))
        return
    sh.count("agree_resolved")
    if len(names) >= 2:
        sh.nontrivial(h)


def run(sh):
    rng = sh.rng
    # (c) isolation: decoys on the real disk in the worker's cwd
    d = tempfile.mkdtemp(prefix="vp-c13-%d-" % sh.shard)
    try:
        for loc in ("", "dir", "lp1", "lp2", "dir/lp3", "sub", "sub/deep", "dir/sub"):
            os.makedirs(os.path.join(d, loc), exist_ok=True)
            for stem in ("a", "foo", "foo.bar", "x-y", "b.c.d", "foo.import", "a.import"):
                for ext in (".scss", ".sass", ".css"):
                    body = ".decoy { real-disk: consulted; }\n" if ext != ".sass" else ".decoy\n  real-disk: consulted\n"
                    with open(os.path.join(d, loc, stem + ext), "w") as f:
                        f.write(body)
                    with open(os.path.join(d, loc, "_" + stem + ext), "w") as f:
                        f.write(body)
        w = sh.worker("R", cwd=d)
        n = 0
        if sh.shard == 0:
            plain_css_family(sh, w)
        while not sh.expired():
            cases = [gen_multi(rng) if rng.chance(0.3) else gen_case(rng) for _ in range(48)]
            specs = [{"entry": c["importer"], "files": c["files"], "load_paths": c["load_paths"]} for c in cases]
            rs = w.batch(specs)
            for c, r in zip(cases, rs):
                if "ok" in r and "real-disk" in r["ok"]:
                    sh.ev()
                    sh.violation("real-disk-consulted", "a decoy from the real working directory reached the output: %s" % r["ok"][:200], {"case": c}, {"directive": c["how"] + " " + c["url"]})
                    continue
                judge(sh, c, r)
                if n < 2:
                    sh.sample({"directive": '%s "%s"' % (c["how"], c["url"]), "importer": c["importer"], "load_paths": c["load_paths"], "files": sorted(c["files"])[:12],
                               "fs_trace": r.get("fs", [])[:12]})
                    n += 1
        if sh.tier == "thorough" and sh.shard == 0:
            strace_stage(sh, d)
    finally:
        shutil.rmtree(d, ignore_errors=True)


PLAIN_FORMS = [
    # (argument text of @import, text that must re-appear in the emitted rule)
    ('url(%s)', 'url(%s)'), ('url("%s")', 'url("%s")'), ('"http://x.test/%s"', 'http://x.test/%s'), ('"https://x.test/%s"', 'https://x.test/%s'),
    ('"//x.test/%s"', '//x.test/%s'), ('"%s.css"', '%s.css'), ('"%s" screen', '%s'), ('"%s" screen and (color)', '%s'),
    ('"%s" (min-width: 1px)', '%s'), ('"%s" supports(display: grid)', '%s'), ('"%s.scss" print', '%s.scss'), ('"%s" not print', '%s'),
    ('url(%s) screen', 'url(%s)'), ('"HTTP://x.test/%s"', 'HTTP://x.test/%s'), ("'%s.css'", '%s.css'), ('"%s.CSS"', None),
]


def plain_css_family(sh, w):
    """every plain-CSS form of @import x where a loadable Sass file of that name exists beside the importer and in a load
    path: the rule is emitted, nothing is loaded or probed; in a mixed list the Sass member is still loaded"""
    from ..core import h64
    for name in ("a", "lib/b", "c.d"):
        base = posixpath.basename(name)
        sub = posixpath.dirname(name)
        files = {}
        for root in ("", "lp/"):
            for f in ("_%s.scss" % base, "%s.css" % base, "%s.scss.css" % base):
                path = posixpath.join(root + sub, f) if sub else root + f
                files[path] = '.loaded { f: "%s"; }\n' % path
        for arg_t, echo_t in PLAIN_FORMS:
            if echo_t is None:
                continue          # (upper-case extension: not covered by the statement either way)
            for mixed in (False, True):
                arg = arg_t % name
                text = ('@import "%s", %s;\n' % (name, arg)) if mixed else "@import %s;\n" % arg
                fs = dict(files)
                fs["main.scss"] = text + "z { y: x; }\n"
                r = w.compile({"entry": "main.scss", "files": fs, "load_paths": ["lp"]})
                sh.ev()
                h = "%016x" % h64(text)
                rp = {"case": {"how": "@import", "url": arg, "importer": "main.scss", "load_paths": ["lp"], "files": fs}}
                facts = {"directive": text.strip(), "files": sorted(fs)}
                if "ok" not in r:
                    sh.violation("plain-css-import-rejected:" + h, "`%s` must be emitted as a CSS @import; grass fails: %s" % (text.strip(), (r.get("err") or {}).get("msg")), rp, facts)
                    continue
                out = r["ok"]
                loaded = re.findall(r'f: "([^"]+)"', out)
                want_loaded = [M.resolve(name, "main.scss", ["lp"], set(files), True)[0]] if mixed else []
                touched = [posixpath.normpath(t[1]) for t in r.get("fs", []) if t[0] in ("read", "is_file") and posixpath.normpath(t[1]) != "main.scss"]
                allowed = M.resolve(name, "main.scss", ["lp"], set(files), True)[1] if mixed else set()
                if "@import" not in out or (echo_t % name) not in out:
                    sh.violation("plain-css-import-not-emitted:" + h, "`%s` must re-appear as a CSS @import rule; output:\n%s" % (text.strip(), out[:300]), rp, facts)
                elif loaded != want_loaded:
                    sh.violation("plain-css-import-loaded:" + h, "`%s` loaded %s (expected %s)" % (text.strip(), loaded, want_loaded), rp, dict(facts, loaded=loaded))
                elif any(t not in allowed for t in touched):
                    sh.violation("plain-css-import-probed:" + h, "`%s` made the compiler look at %s on the file system" % (text.strip(), [t for t in touched if t not in allowed][:4]), rp, dict(facts, touched=touched))
                else:
                    sh.count("plain_css_family_agree")
                    sh.nontrivial(["plain", text])


def strace_stage(sh, d):
    """no file-system syscall between request and response"""
    import json
    import subprocess
    rng = sh.rng
    reqs = [{"batch": [{"entry": c["importer"], "files": c["files"], "load_paths": c["load_paths"]} for c in [gen_case(rng) for _ in range(200)]]}]
    inp, out, log = os.path.join(d, "in.jsonl"), os.path.join(d, "out.jsonl"), os.path.join(d, "strace.log")
    with open(inp, "w") as f:
        for r in reqs:
            f.write(json.dumps(r) + "\n")
    try:
        subprocess.run(["strace", "-f", "-e", "trace=%file", "-o", log, sh.bins["R"], "--in", inp, "--out", out], cwd=d, timeout=300,
                       stdout=subprocess.PIPE, stderr=subprocess.PIPE)
    except (subprocess.TimeoutExpired, OSError):
        sh.inconc("strace-unavailable-or-timeout")
        return
    sh.ev(200)
    seen_open_in = False
    bad = []
    for line in open(log, errors="replace"):
        if "in.jsonl" in line and "openat(" in line:     # (the execve line also names the file: the loader runs after it)
            seen_open_in = True
            continue
        if not seen_open_in:
            continue
        if "out.jsonl" in line or "/proc/" in line or "/sys/" in line or "ENOENT" in line and "/etc/" in line:
            continue
        if any(s in line for s in ("openat(", "stat(", "access(", "readlink(", "newfstatat(", "statx(")):
            bad.append(line.strip()[:160])
    sh.count("strace_file_syscalls_during_compilations", len(bad))
    if bad:
        sh.violation("file-syscall-during-compilation", "file-system syscalls were made while compiling with an in-memory Fs:\n" + "\n".join(bad[:8]), {"note": "strace stage"}, {"syscalls": bad[:20]})


def replay(sh, payload):
    c = payload["replay"]["case"]
    r = sh.w.compile({"entry": c["importer"], "files": c["files"], "load_paths": c["load_paths"]})
    print(c["how"], c["url"], "from", c["importer"], "load paths", c["load_paths"])
    print(sorted(c["files"]))
    print(r)
    return "see output"
