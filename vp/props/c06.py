"""C06 — output style changes only formatting. Metamorphic monitor: compile the same input expanded and
compressed; canonical block lists (independent CSS reader; licensed differences removed, string tokens
untouched) must be equal; success/failure, Logger traces and probe-observed values must be equal."""
import json

from .. import corpus, cssread
from ..gen import soup

ID = "C06"
RULE = ("each input (golden corpus item, near-miss mutation of one that still compiles, or a generated program "
        "biased to value-to-text conversion sites: interpolation/concatenation of numbers<1, colours and lists into "
        "strings, selectors, property names, media queries, @debug/@warn/@error, unary operators, str-* functions "
        "on such strings) is compiled in both styles. non-trivial = both compilations succeed with non-empty "
        "output or both fail, and the input contains at least one declaration or diagnostic; distinct = distinct input texts.")
ASSUMPTIONS = [
    "licensed differences removed by the canonicaliser: insignificant whitespace, optional final semicolons, non-/*! comments, number spelling (0.5/.5), colour spelling (name/#rgb/#rrggbb), spaces after , / : and around combinators, @charset vs BOM",
    "outputs that are not parseable CSS in either style (e.g. deliberately Sass-looking unquoted strings) are compared as whitespace-normalised text instead",
]


def plan(tier):
    return {"budget_s": 60 if tier == "quick" else 480, "profiles": ["R"], "min_evaluations": 1000, "params": {"worker_timeout": 5}}


NUMS = ["0.5", "-0.5", ".25", "0.125", "1.5", "10", "0", "-0.0", "0.999", "1e-3", "100%", "0.5px", "-.5em", "0.05s",
        "(1/3)", "math.div(1,4)", "0.1 + 0.2", "1 - 0.25"]
COLS = ["red", "#ff0000", "#f00", "#abcdef", "rgba(1, 2, 3, 0.5)", "hsl(120, 50%, 50%)", "transparent", "#aabbcc80",
        "lighten(red, 10%)", "mix(red, blue)", "rgba(red, .25)", "rebeccapurple", "#00000080"]
LISTS = ["(1, 2)", "(a, b, c)", "(1 2, 3 4)", "[1, 2]", "(0.5, .25)", "(a: 0.5)", "(1/2)", "(red, #fff)", "1 2 3",
         "join((0.5,), (0.25,))", "(a b,)"]
STRS = ['"a  b"', "a", '"x,y"', '"0.50"', "'q'"]


def gen_program(rng):
    def v():
        k = rng.below(10)
        if k < 4:
            return rng.choice(NUMS)
        if k < 7:
            return rng.choice(COLS)
        if k < 9:
            return rng.choice(LISTS)
        return rng.choice(STRS)
    parts = ['@use "sass:math"; @use "sass:string"; @use "sass:list"; @use "sass:meta";']
    for i in range(rng.range(2, 7)):
        x, y = v(), v()
        t = rng.below(24)
        if t == 0:
            parts.append('a { b%d: str-length("#{%s}"); c: string.length("x#{%s}y"); }' % (i, x, y))
        elif t == 1:
            parts.append('a { b%d: "x" + %s; c: %s + "x"; d: "#{%s}"; e: x + %s; }' % (i, x, y, x, y))
        elif t == 2:
            parts.append('a { b%d: str-index("#{%s}", "0") str-slice("#{%s}", 1, 2) str-insert("#{%s}", "_", 2); }' % (i, x, y, x))
        elif t == 3:
            parts.append('.y#{str-length("#{%s}")}-%d { a: b; }' % (x, i))
        elif t == 4:
            parts.append('.z%d { p-#{str-length("#{%s}")}: c; q-#{%s}: d; }' % (i, x, rng.choice(["0.5", "a", "1", "10"])))
        elif t == 5:
            parts.append('@media (min-width: #{%s}px) and (x: #{%s}) { a%d { b: c; } }' % (rng.choice(NUMS[:10]), x, i))
        elif t == 6:
            parts.append('@if str-length("#{%s}") == 3 { a%d { b: three; } } @else { a%d { b: other; } }' % (x, i, i))
        elif t == 7:
            parts.append("@debug %s; @warn %s; @debug \"s#{%s}\";" % (x, y, x))
        elif t == 8:
            parts.append("a { b%d: inspect(%s); c: -%s; d: +%s; e: meta.inspect(%s); }" % (i, x, x, y, y))
        elif t == 9:
            parts.append('a { b%d: unquote("#{%s}"); c: foo(%s, %s); d: calc(1px + #{%s} * 1px); }' % (i, x, x, y, rng.choice(NUMS[:6])))
        elif t == 10:
            parts.append('a { $s: "#{%s}|#{%s}"; b%d: vp-emit($s, "x" + %s, inspect(%s), str-length($s)); c: $s; }' % (x, y, i, x, y))
        elif t == 11:
            parts.append("a { b%d: - %s; c: / %s; d: not %s; e: %s / 2; f: (%s)/(%s); }" % (i, x, y, x, rng.choice(NUMS), x, y))
        elif t == 12:
            parts.append('a { b%d: selector-append(".a", "#{%s}") }' % (i, rng.choice(["-0.5", ".b", "b"])))
        elif t == 13:
            parts.append('@each $k in %s { .e%d-#{str-length("#{$k}")} { v: $k; w: "#{$k}"; } }' % (rng.choice(LISTS), i))
        elif t == 14:
            parts.append("@function f%d($x) { @return \"#{$x}\" + $x; } a { b: f%d(%s); c: str-length(f%d(%s)); }" % (i, i, x, i, y))
        elif t == 15:
            parts.append('a { b%d: url(#{%s}); c: url("a#{%s}"); d: U+0#{%s}; }' % (i, x, y, rng.choice(["1", "0.5"])))
        elif t == 16:
            parts.append("a { b%d: %s %s; c: %s, %s; d: [%s %s]; --x: %s; --y: #{%s}; }" % (i, x, y, x, y, x, y, x, y))
        elif t == 17:
            parts.append('@supports (a: #{%s}) { s%d { b: %s; } }' % (x, i, y))
        elif t == 18:
            parts.append('a { b%d: rgb(%s, %s, var(--z)); c: rgba(var(--x), %s); d: hsl(var(--h), %s, 50%%); }' % (
                i, rng.choice(["1", "0.5", "255"]), rng.choice(["2", "1.5"]), rng.choice(NUMS[:6]), rng.choice(["50%", "0.5%"])))
        elif t == 19:
            parts.append('a { b%d: if(str-length("#{%s}") > 2, long, short); c: "#{%s}" == "#{%s}"; d: %s == %s; }' % (i, x, x, y, x, y))
        elif t == 20:
            parts.append("@keyframes k%d { #{%s * 100%%} { a: b; } to { c: %s; } }" % (i, rng.choice(["0.5", "0.25", "1"]), x))
        elif t == 21:
            parts.append('a { b%d: min(%s, 1) max(#{%s}, 2) clamp(0, %s, 1); }' % (i, rng.choice(NUMS[:8]), rng.choice(NUMS[:4]), rng.choice(NUMS[:8])))
        elif t == 22:
            parts.append('@font-face { font-family: "f%d"; x: %s; } @page :first { margin: %s; } @unknown #{%s} { a { b: %s; } }' % (i, x, y, x, y))
        else:
            parts.append("/* loud %d */ /*! keep #{%s} */ a { /* in */ b: %s; }" % (i, x, y))
    if rng.chance(0.15):
        parts.append("@error %s;" % v())
    return "\n".join(parts)


CALCS = ["calc(1px * var(--x))", "calc(1px + 1%)", "calc(0.5px + 1%)", "min(1px, 1%)", "clamp(0.5px, 1%, 2em)",
         "calc(var(--a) / 0.5)", "calc((1px + 1%) * 0.5)", "calc(1px - (0.25em + 1%))", "max(.5vw, 1px, 2%)"]
MODULES = ["math", "string", "list", "map", "color", "selector", "meta"]
NONDET = {"random", "unique-id"}


def builtin_names(sh):
    """the function table of the compiler under test, read through sass:meta (so a new builtin is swept too)"""
    src = " ".join('@use "sass:%s";' % m for m in MODULES) + " a { " + " ".join(
        'b%d: vp-emit(map.keys(meta.module-functions("%s")));' % (i, m) for i, m in enumerate(MODULES)) + " }"
    r = sh.w.compile({"text": src, "syntax": "scss"})
    out = []
    for m, dump in zip(MODULES, r.get("probe") or []):
        for it in _items(dump):
            if it not in NONDET:
                out.append((m, it))
    return out


def _items(dump):
    found = []

    def walk(x):
        if isinstance(x, dict):
            if x.get("t") == "s" and isinstance(x.get("v"), str):
                found.append(x["v"])
            for v in x.values():
                walk(v)
        elif isinstance(x, list):
            for v in x:
                walk(v)
    walk(dump)
    return found


def gen_builtin_call(rng, names):
    m, f = rng.choice(names)
    pool = rng.choice([NUMS, COLS, LISTS, STRS, CALCS, CALCS])
    args = [rng.choice(pool)]
    for _ in range(rng.below(3)):
        args.append(rng.choice(rng.choice([NUMS, COLS, LISTS, STRS, CALCS])))
    call = "%s.%s(%s)" % (m, f, ", ".join(args))
    return ('@use "sass:math"; @use "sass:string"; @use "sass:list"; @use "sass:map"; @use "sass:color"; '
            '@use "sass:selector"; @use "sass:meta";\n$v: %s;\na { b: vp-emit($v, meta.inspect($v), string.length(meta.inspect($v)), "#{meta.inspect($v)}"); c: meta.inspect($v); }' % call)


def view(res, user_error=False):
    """(status, canonical blocks | error message | panic) of one compilation"""
    if "ok" in res:
        css = res["ok"] or ""
        try:
            blocks, info = cssread.read(css, keep_comments=True)
            return ("ok", json.dumps(blocks, ensure_ascii=False))
        except cssread.CssError:
            return ("ok-unparsed", " ".join(css.replace("﻿", "").replace('@charset "UTF-8";', "").split()))
        except RecursionError:
            return ("ok-unparsed", "recursion")
    if "err" in res:
        # wording of compiler-generated messages is not part of the property (README: messages may
        # deviate); only a user's @error text is a SassScript-computed value
        return ("err", res["err"].get("msg") if user_error else "")
    if "panic" in res:
        return ("panic", res["panic"].get("msg", "")[:60])
    return ("other", json.dumps(res, sort_keys=True)[:100])


def _loose(text):
    import re
    t = re.sub(r"/\*(?!!).*?\*/", "", text, flags=re.S)
    return re.sub(r"[\s;]+", "", t)


def judge(sh, text, syntax, re_, rc, source):
    sh.ev(2)
    ue = "@error" in text
    ve, vc = view(re_, ue), view(rc, ue)
    budget = any("panic" in r and r["panic"].get("msg", "").startswith("VERIF-BUDGET") for r in (re_, rc))
    if budget or "timeout" in re_ or "timeout" in rc or "died" in re_ or "died" in rc:
        sh.inconc("budget-or-watchdog")
        return
    spec = {"text": text, "syntax": syntax}
    facts = {"input": text, "expanded": list(ve), "compressed": list(vc), "source": source}
    if ve[0] == "ok-unparsed" or vc[0] == "ok-unparsed":
        # not CSS in at least one style (the property's domain is CSS output): compare loosely
        if _loose(re_.get("ok") or "") != _loose(rc.get("ok") or "") and ve[0] == vc[0]:
            sh.count("unparsed_outputs_differ_loosely")
        sh.inconc("output-not-parseable-as-css")
        return
    if ve[0] != vc[0]:
        sh.violation("status-differs:" + _h(text), "one style succeeds, the other fails\ninput: %s\nexpanded: %s\ncompressed: %s" % (
            text[:400], str(ve)[:200], str(vc)[:200]), {"spec": spec}, facts)
        return
    if ve != vc:
        what = "css-differs" if ve[0] == "ok" else "error-differs"
        sh.violation(what + ":" + _h(text), "%s between styles\ninput: %s\nexpanded:   %s\ncompressed: %s" % (
            what, text[:400], _diff(ve[1], vc[1])[0], _diff(ve[1], vc[1])[1]), {"spec": spec}, facts)
        return
    le = [(l[0], l[4]) for l in re_.get("log", [])]
    lc = [(l[0], l[4]) for l in rc.get("log", [])]
    if le != lc:
        sh.violation("log-differs:" + _h(text), "@debug/@warn messages differ between styles\ninput: %s\nexpanded: %s\ncompressed: %s" % (
            text[:400], le[:6], lc[:6]), {"spec": spec}, dict(facts, log_e=le[:20], log_c=lc[:20]))
        return
    if re_.get("probe") != rc.get("probe"):
        sh.violation("probe-differs:" + _h(text), "values observed by the probe differ between styles\ninput: %s\nexpanded: %s\ncompressed: %s" % (
            text[:400], json.dumps(re_.get("probe"))[:300], json.dumps(rc.get("probe"))[:300]), {"spec": spec}, facts)
        return
    sh.count("agree_" + ve[0])
    if (ve[0] == "ok" and ve[1] != "[]") or ve[0] == "err" or le:
        sh.nontrivial(text)


def _h(text):
    from ..core import h64
    return "%016x" % h64(text)


def _diff(a, b):
    i = 0
    while i < min(len(a), len(b)) and a[i] == b[i]:
        i += 1
    s = max(0, i - 60)
    return a[s:i + 100], b[s:i + 100]


def run_pairs(sh, items):
    """items: list of (text, syntax, source)"""
    specs = []
    for text, syntax, source in items:
        base = {"text": text, "syntax": syntax, "budgets": {"steps": 300000}}
        specs.append(dict(base, style="expanded"))
        specs.append(dict(base, style="compressed"))
    rs = sh.w.batch(specs)
    for i, (text, syntax, source) in enumerate(items):
        judge(sh, text, syntax, rs[2 * i], rs[2 * i + 1], source)


def run(sh):
    rng = sh.rng
    items = [it for it in corpus.items() if not it["ignored"]]
    mine = [it for i, it in enumerate(items) if i % sh.nshards == sh.shard]
    batch = []
    rng.shuffle(mine)
    for it in mine:
        if sh.past(0.5):
            sh.count("corpus_items_skipped_time")
            continue
        if "random(" in it["input"] or "unique-id" in it["input"]:
            continue
        batch.append((it["input"], it["spec"].get("syntax") or "scss", "corpus"))
        if len(batch) == 32:
            run_pairs(sh, batch)
            batch = []
    run_pairs(sh, batch)
    inputs = [it["input"] for it in items if "random(" not in it["input"] and "unique-id" not in it["input"]]
    n = 0
    names = builtin_names(sh)
    sh.count("builtin_functions_discovered", len(names) if sh.shard == 0 else 0)
    while not sh.expired():
        batch = []
        for _ in range(32):
            if rng.chance(0.2):
                # statement-level serializer paths (top-level @import/@charset-less at-rules, comments between
                # statements, nested at-rules, keyframes, ...): the C05 generator of CSS-representable programs
                from .c05 import gen_clean_program
                batch.append((gen_clean_program(rng), "scss", "statement-shapes"))
                sh.count("statement_shape_programs")
            elif names and rng.chance(0.3):
                batch.append((gen_builtin_call(rng, names), "scss", "builtin-sweep"))
                sh.count("builtin_sweep_calls")
            elif rng.chance(0.7):
                t = gen_program(rng)
                batch.append((t, "scss", "generated"))
                if n < 2:
                    sh.sample({"input": t})
                    n += 1
            else:
                batch.append((soup.mutate(rng, rng.choice(inputs), rng.choice(inputs)), "scss", "mutation"))
        run_pairs(sh, batch)


def replay(sh, payload):
    spec = payload["replay"]["spec"]
    re_ = sh.w.compile(dict(spec, style="expanded"))
    rc = sh.w.compile(dict(spec, style="compressed"))
    before = len(sh.violations) + sum(sh.known.values())
    judge(sh, spec["text"], spec.get("syntax"), re_, rc, "replay")
    print("expanded:  ", view(re_))
    print("compressed:", view(rc))
    return "violated" if len(sh.violations) + sum(sh.known.values()) > before else "held"
