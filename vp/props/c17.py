"""C17 — nested @media queries merge to their logical intersection.
Oracle: truth-table evaluation (Media Queries 4) over ENV = {screen, print, other} x 2^{a,b,c}: the set of
environments satisfying the emitted structure (merged list, nested lists, or nothing) must equal
sat(outer) & sat(inner)."""
import itertools
import re

from .. import cssread

ID = "C17"
RULE = ("exhaustive: all ordered pairs of single queries from {no type, all, screen, print} x {no modifier, not, only} x "
        "subsets of {(a),(b),(c)} (legal combinations; excluded as the quantifier says: modifiers on `all`, pairs of two "
        "negated queries of the same type), each nested outer{inner{rule}}; sampled: query lists of length 2, triples, "
        "interpolated spellings, upper-case keywords. non-trivial = both query lists non-trivial (not both bare); "
        "distinct = distinct (outer, inner[, innermost]) texts.")
ASSUMPTIONS = ["media feature conditions are opaque booleans; `only` is a no-op; a bare feature list has no type restriction"]

TYPES = [None, "all", "screen", "print"]
MODS = [None, "not", "only"]
FEATS = ["(a)", "(b)", "(c)"]
ENVS = [(t, fs) for t in ("screen", "print", "other") for fs in itertools.product([False, True], repeat=3)]


def plan(tier):
    return {"budget_s": 25 if tier == "quick" else 240, "profiles": ["R"], "min_evaluations": 1000}


def queries():
    out = []
    for t in TYPES:
        for m in MODS:
            for k in range(4):
                for fs in itertools.combinations(range(3), k):
                    if t is None and (m is not None or not fs):
                        continue
                    if t == "all" and m is not None:
                        continue
                    out.append((m, t, fs))
    return out


def qtext(q, rng=None):
    m, t, fs = q
    parts = []
    if t is not None:
        tt = t
        if rng is not None and rng.chance(0.3):
            tt = "#{%s}" % t
        elif rng is not None and rng.chance(0.1):
            tt = t.upper()
        parts.append((m + " " if m else "") + tt)
    for f in fs:
        ft = FEATS[f]
        if rng is not None and rng.chance(0.2):
            ft = "(#{%s})" % "abc"[f]
        parts.append(ft)
    return " and ".join(parts)


def sat_q(q):
    m, t, fs = q
    s = set()
    for i, (et, ef) in enumerate(ENVS):
        v = (t in (None, "all") or et == t) and all(ef[f] for f in fs)
        if m == "not":
            v = not v
        if v:
            s.add(i)
    return s


def sat_list(ql):
    s = set()
    for q in ql:
        s |= sat_q(q)
    return s


QRX = re.compile(r"^\s*(?:(not|only)\s+)?([a-z]+)?\s*((?:(?:and\s*)?\([abc]\)\s*)*)$", re.I)


def parse_query(text):
    """-> (mod, type, feats) or None if outside the fragment"""
    t = text.strip()
    m = re.match(r"^(?:(not|only)\s+)?([A-Za-z]+)((?:\s+and\s+\([abc]\))*)$", t)
    if m:
        feats = tuple("abc".index(x) for x in re.findall(r"\(([abc])\)", m.group(3)))
        return (m.group(1).lower() if m.group(1) else None, m.group(2).lower(), feats)
    m = re.match(r"^\([abc]\)(?:\s+and\s+\([abc]\))*$", t)
    if m:
        return (None, None, tuple("abc".index(x) for x in re.findall(r"\(([abc])\)", t)))
    return None


def sat_ctx(ctx):
    """ctx: tuple of '@media ...' heads (nested) -> set of envs, or None if unparseable"""
    s = set(range(len(ENVS)))
    for head in ctx:
        if not head.startswith("@media"):
            return None
        ql = []
        for part in head[len("@media"):].split(","):
            q = parse_query(part.replace(":", ": "))
            if q is None:
                return None
            ql.append(q)
        s &= sat_list(ql)
    return s


def excluded(q1, q2):
    return q1[0] == "not" and q2[0] == "not" and q1[1] == q2[1]


def run_cases(sh, cases, interp_rng=None):
    """cases: list of tuples of query-lists (outer first). One stylesheet per chunk; each case has its own marker rule."""
    for base in range(0, len(cases), 150):
        chunk = cases[base:base + 150]
        lines = []
        texts = []
        for i, levels in enumerate(chunk):
            tx = [", ".join(qtext(q, interp_rng) for q in ql) for ql in levels]
            texts.append(tx)
            lines.append("".join("@media %s { " % t for t in tx) + ".m%d { x: y; }" % i + " }" * len(tx))
        src = "\n".join(lines)
        style = "expanded"
        res = sh.w.compile({"text": src, "style": style})
        sh.ev(len(chunk))
        if "ok" not in res:
            # one bad case should not hide the others: fall back to one compile per case
            if len(chunk) > 1:
                for c in chunk:
                    run_cases(sh, [c], interp_rng)
                sh.ev(-len(chunk))
                continue
            sh.violation("compile-fails:" + texts[0][0] + "|" + texts[0][-1], "nested @media does not compile: %s\n%s" % (
                str(res)[:300], src), {"levels": texts[0], "src": src}, {"src": src})
            continue
        try:
            blocks, _ = cssread.read(res["ok"])
        except cssread.CssError as e:
            sh.violation("malformed-output", "output not well-formed: %s" % e, {"src": src}, {"src": src})
            continue
        got = {}
        for ctx, sel, decls in blocks:
            m = re.match(r"^\.m(\d+)$", sel)
            if m and decls:
                got.setdefault(int(m.group(1)), []).append(ctx)
        for i, levels in enumerate(chunk):
            want = set(range(len(ENVS)))
            for ql in levels:
                want &= sat_list(ql)
            have = set()
            bad = False
            for ctx in got.get(i, []):
                s = sat_ctx(ctx)
                if s is None:
                    bad = True
                    break
                have |= s
            key = " | ".join(texts[i])
            if bad:
                sh.violation("query-text-altered:" + key, "emitted query is outside the input fragment (text altered?)\nsource: %s\nemitted contexts: %s" % (
                    lines[i], got.get(i)), {"levels": texts[i], "src": lines[i]}, {"src": lines[i], "ctx": got.get(i)})
                continue
            if have != want:
                extra = sorted(have - want)
                missing = sorted(want - have)
                w = ENVS[(extra or missing)[0]]
                sh.violation("wrong-intersection:" + key,
                             "emitted structure is satisfied by a different set of environments\nsource: %s\nemitted contexts: %s\n"
                             "%d environments too many, %d missing; e.g. type=%s a=%s b=%s c=%s" % (
                                 lines[i], got.get(i), len(extra), len(missing), w[0], w[1][0], w[1][1], w[1][2]),
                             {"levels": texts[i], "src": lines[i]},
                             {"src": lines[i], "ctx": got.get(i), "extra": len(extra), "missing": len(missing)})
                continue
            sh.count("agree_empty" if not want else ("agree_nested" if any(len(c) > 1 for c in got.get(i, [])) else "agree_merged"))
            if any(q != (None, None, ()) for ql in levels for q in ql):
                sh.nontrivial(key)
        if base == 0 and sh.shard == 0:
            sh.sample({"source": lines[0], "emitted_contexts": got.get(0)})


def run(sh):
    rng = sh.rng
    qs = queries()
    pairs = [(a, b) for a in qs for b in qs if not excluded(a, b)]
    mine = [([a], [b]) for i, (a, b) in enumerate(pairs) if i % sh.nshards == sh.shard]
    sh.counters["exhaustive_single_query_pairs_total"] = len(pairs) if sh.shard == 0 else 0
    run_cases(sh, mine)
    run_cases(sh, [([a],) for i, a in enumerate(qs) if i % sh.nshards == sh.shard])
    while not sh.expired():
        cases = []
        for _ in range(150):
            k = rng.below(3)
            if k == 0:  # lists of length 1-2
                l1 = [rng.choice(qs) for _ in range(rng.range(1, 2))]
                l2 = [rng.choice(qs) for _ in range(rng.range(1, 2))]
                if any(excluded(a, b) for a in l1 for b in l2):
                    continue
                cases.append((l1, l2))
            elif k == 1:  # triples
                a, b, c = rng.choice(qs), rng.choice(qs), rng.choice(qs)
                if rng.chance(0.4):
                    # a middle level that adds nothing (same query, `all`, or a subset of the outer conditions) under
                    # an innermost query that cannot be merged (negation): the bubbling logic decides the placement
                    b = rng.choice([a, (None, "all", ()), (a[0], a[1], a[2][:1]) if a[1] else a])
                    neg = [q for q in qs if q[0] == "not"]
                    c = rng.choice(neg) if rng.chance(0.7) else c
                if excluded(a, b) or excluded(b, c) or excluded(a, c):
                    continue
                cases.append(([a], [b], [c]))
            else:
                a, b = rng.choice(qs), rng.choice(qs)
                if excluded(a, b):
                    continue
                cases.append(([a], [b]))
        run_cases(sh, cases, interp_rng=rng if rng.chance(0.5) else None)


def finalize(tier, counters, params):
    return {"coverage": {"exhaustive_subspaces": ["all ordered pairs of single media queries over 4 types x 3 modifiers x 2^3 feature subsets (legal, non-excluded)"],
                         "exhaustive": False}}


def replay(sh, payload):
    r = payload["replay"]
    src = r.get("src")
    res = sh.w.compile({"text": src})
    print(src)
    print(res.get("ok") or res)
    return "see output"
