"""C01 — compilation is total. Oracle: exactly one of {Ok(css), Err(structured)} is returned within the
logical-step budgets; anything else (panic, process death, parse-progress invariant broken, an Err that
cannot be inspected/rendered) refutes."""
from .. import corpus, totality
from ..gen import soup

ID = "C01"
RULE = ("workloads: golden corpus verbatim x {scss,sass,css}; near-miss mutations of corpus items; token soup; indentation soup "
        "for the indented syntax (dictionary lines at increasing/decreasing/inconsistent indentation); "
        "ill-typed calls of every builtin (names read from the tree); deep shapes; invalid/unreadable bytes for "
        "entry and imported files; hex escapes of every boundary code point (NUL, surrogate range edges, U+10FFFF, beyond, "
        "overlong) in every lexical context that decodes escapes; option flags sampled. A case is non-trivial when its input is non-empty and "
        "the compiler returned Ok or Err (i.e. the oracle had something to judge); distinct = distinct "
        "(input, syntax, style, flags) hashes.")
ASSUMPTIONS = [
    "hang verdicts are decided on logical-step budgets (cargo feature `verif`), never on wall-clock time",
    "evaluation budgets (5e6 steps, call depth 2000) exceeded => the stylesheet itself is unbounded => excluded by the property",
    "worker threads have a 256 MiB stack; the 8 MiB default-stack workload is a separate stratum",
    "inputs are <= 8 KiB except the deep-shape stratum",
]


def plan(tier):
    if tier == "quick":
        return {"budget_s": 75, "profiles": ["R", "D"], "min_evaluations": 1000}
    return {"budget_s": 900, "profiles": ["R", "D", "asan"], "min_evaluations": 1000}


SYNTAXES = ["scss", "sass", "css"]


def _flags(rng):
    return {
        "style": "compressed" if rng.chance(0.4) else "expanded",
        "quiet": rng.chance(0.5),
        "unicode": rng.chance(0.6),
        "charset": rng.chance(0.7),
    }


def judge(sh, spec, res, stratum):
    sh.ev()
    text = spec.get("text")
    n = len(text.encode("utf-8", "surrogatepass")) if text is not None else sum(
        len(str(v)) for v in (spec.get("files") or {}).values())
    verdict, sig, detail = totality.classify(res, n)
    sh.count("verdict_" + verdict)
    sh.count("stratum_" + stratum)
    if verdict == "held":
        sh.count("result_" + sig)
        if n:
            sh.nontrivial([spec.get("text"), spec.get("files"), spec.get("entry"), spec.get("syntax"),
                           spec.get("style"), spec.get("quiet"), spec.get("unicode"), spec.get("charset")])
    elif verdict == "excluded":
        sh.count("excluded_" + sig)
    elif verdict == "inconclusive":
        sh.inconc(sig)
    else:
        sh.violation(sig + "|" + (spec.get("syntax") or "auto"), detail, {"spec": spec, "profile": spec.get("_profile", "R")},
                     {"sig": sig, "syntax": spec.get("syntax") or "auto", "stratum": stratum,
                      "input": text if text is not None else spec.get("files"),
                      "panic": res.get("panic") if isinstance(res, dict) else None})
    st = res.get("steps") if isinstance(res, dict) else None
    if st:
        if st[1] > sh.counters.get("max_reads_without_progress", 0):
            sh.counters["max_reads_without_progress"] = st[1]


def run_batch(sh, specs, stratum, profile="R", stack_mb=None):
    if stack_mb:
        w = sh.worker(profile, stack_mb=stack_mb)
    else:
        w = sh.worker(profile)
    clean = [{k: v for k, v in s.items() if not k.startswith("_")} for s in specs]
    rs = w.batch(clean)
    for s, c, r in zip(specs, clean, rs):
        s["_profile"] = profile
        if totality.classify(r)[0] == "violated" and "died" not in r:
            # found on the persistent compile thread: confirm in isolation (fresh thread) so the
            # replay file is self-contained
            r2 = w.compile(c)
            if totality.classify(r2)[0] != "violated":
                sh.ev()
                sh.inconc("violation-not-reproduced-on-fresh-thread")
                sh.count("history_dependent_anomaly:" + totality.classify(r)[1][:80])
                continue
            r = r2
        judge(sh, s, r, stratum)
    return rs


def run(sh):
    rng = sh.rng
    items = [it for it in corpus.items()]
    inputs = [it["input"] for it in items]
    mine = [it for i, it in enumerate(items) if i % sh.nshards == sh.shard]

    # 1. corpus verbatim x 3 syntaxes (must be silent apart from keyed findings)
    for prof in ("R", "D"):
        specs = []
        for it in mine:
            for syn in SYNTAXES:
                s = dict(it["spec"])
                s.update({"text": it["input"], "syntax": syn, "logger": "custom"})
                if prof == "D" and syn != (it["spec"].get("syntax") or "scss"):
                    continue
                specs.append(s)
        for i in range(0, len(specs), 64):
            run_batch(sh, specs[i:i + 64], "corpus", prof)

    # 5. bytes: invalid UTF-8 / unreadable, entry and imported. Family: every kind of ill-formed sequence (lone
    # continuation, lead truncated by the next byte or by the end of the file, overlong, surrogate, beyond U+10FFFF,
    # 0xFE/0xFF, UTF-16 BOMs) x what precedes it (nothing, ASCII, multi-byte text, an open string) x what follows it
    # (nothing = end of file, newline, closing text) x how the file is reached x the syntax its extension implies.
    bad_seqs = ["80", "bf", "c3", "e2", "e282", "f0", "f09f", "f09f98", "c328", "e228", "e28228", "f09f28", "f09f9828",
                "c080", "c1bf", "e08080", "e09fbf", "f0808080", "f08fbfbf", "eda080", "edbfbf", "f4908080", "f5808080",
                "f888808080", "ff", "fe", "ff00", "fffe6100", "feff0061", "61f0288cbc"]
    prefixes = ["", "a{b:c}\n".encode().hex(), "/* \u00e9 */ a{b:\"\u20ac\"}\n".encode().hex(), "a{b:\"".encode().hex(), "efbbbf"]
    suffixes = ["", "0a", "\"}\n".encode().hex()]
    contents = [{"hex": pre + b + suf} for b in bad_seqs for pre in prefixes for suf in suffixes]
    contents += [{"err": "denied"}, {"hex": ""}, {"hex": "efbbbf"}, {"hex": "efbbbf" + "a{b:c}".encode().hex()}]
    specs = []
    k = 0
    for bad in contents:
        for how in ("@import", "@use", "@forward", "load-css", "entry"):
            for ext in ("scss", "sass", "css"):
                k += 1
                if k % sh.nshards != sh.shard:
                    continue
                if how == "entry":
                    specs.append({"entry": "/p/b." + ext, "files": {"/p/b." + ext: bad}})
                elif how == "load-css":
                    specs.append({"entry": "/p/a.scss", "files": {"/p/a.scss": '@use "sass:meta";\na{@include meta.load-css("b")}', "/p/b." + ext: bad}})
                else:
                    specs.append({"entry": "/p/a.scss", "files": {"/p/a.scss": '%s "b";\na{b:c}' % how, "/p/b." + ext: bad}})
    if sh.shard == 0:
        specs.append({"entry": "/p/missing.scss", "files": {}})
        specs.append({"entry": "/p/a.scss", "files": {"/p/a.scss": '@import "missing";'}})
        specs.append({"entry": "/p/a.scss", "files": {"/p/a.scss": '@use "a";'}})
        specs.append({"entry": "/p/a.scss", "files": {"/p/a.scss": '@import "a";'}})
    for i in range(0, len(specs), 64):
        run_batch(sh, specs[i:i + 64], "bytes", "R")
        run_batch(sh, [dict(s) for s in specs[i:i + 64]], "bytes", "D")

    # default-stack stratum (8 MiB, like a CLI user), moderate depths that a recursive-descent parser must survive
    if sh.shard == 1:
        specs = [{"text": soup.deep_shape(rng.fork(k), d), "syntax": "scss"} for k in range(24) for d in (50, 200)]
        run_batch(sh, specs, "default-stack-moderate-depth", "R", stack_mb=8)

    # escape stratum: boundary code points x lexical contexts (fixed family, spread over the shards)
    fam = [{"text": t, "syntax": syn} for t, syn in soup.escape_family()]
    mine_fam = [s for i, s in enumerate(fam) if i % sh.nshards == sh.shard]
    for i in range(0, len(mine_fam), 64):
        run_batch(sh, mine_fam[i:i + 64], "escapes", "R")
        run_batch(sh, [dict(s) for s in mine_fam[i:i + 64]], "escapes", "D")
    sh.counters["escape_family_size"] = len(fam) if sh.shard == 0 else 0

    round_ = 0
    while not sh.expired():
        round_ += 1
        prof = "D" if round_ % 4 == 0 else "R"
        specs = []
        for _ in range(64):
            k = rng.below(100)
            if k < 55:
                a = rng.choice(inputs)
                b = rng.choice(inputs)
                text = soup.mutate(rng, a, b)
                stratum = "mutation"
            elif k < 75:
                text = soup.builtin_call(rng)
                stratum = "builtin-call"
            elif k < 82:
                text = soup.sass_lines(rng)
                stratum = "sass-lines"
            elif k < 88:
                text = soup.soup(rng)
                stratum = "soup"
            elif k < 90:
                text = soup.deep_shape(rng, rng.choice([10, 100, 400] if prof == "R" else [10, 100]))
                stratum = "deep-shape"
            else:
                # multi-file: mutated text as an imported file
                a = soup.mutate(rng, rng.choice(inputs), rng.choice(inputs))
                ext = rng.choice(["scss", "sass", "css"])
                how = rng.choice(["@import", "@use", "@forward"])
                s = {"entry": "/p/main.scss", "files": {"/p/main.scss": '%s "dep";\nx{y:z}' % how, "/p/dep." + ext: a},
                     "budgets": {"steps": 200000}}
                s.update(_flags(rng))
                s["_stratum"] = "imported-mutation"
                specs.append(s)
                continue
            s = {"text": text, "syntax": "sass" if stratum == "sass-lines" else (rng.choice(SYNTAXES) if stratum != "builtin-call" else "scss"),
                 "budgets": {"steps": 200000}}
            s.update(_flags(rng))
            s["_stratum"] = stratum
            specs.append(s)
        by = {}
        for s in specs:
            by.setdefault(s["_stratum"], []).append(s)
        for stratum, ss in by.items():
            run_batch(sh, ss, stratum, prof)
        if round_ <= 2:
            sh.sample({"spec": {k: v for k, v in specs[0].items() if not k.startswith("_")}})

    # thorough: the same hostile workload under AddressSanitizer
    if sh.tier == "thorough" and "asan" in sh.bins:
        import time
        t_end = time.monotonic() + 240
        w = sh.worker("asan", env={"ASAN_OPTIONS": "detect_leaks=0:halt_on_error=1:abort_on_error=1"}, timeout=60, mem_gb=0)
        while time.monotonic() < t_end:
            specs = []
            for _ in range(32):
                text = soup.mutate(rng, rng.choice(inputs), rng.choice(inputs)) if rng.chance(0.7) else soup.builtin_call(rng)
                s = {"text": text, "syntax": rng.choice(SYNTAXES), "budgets": {"steps": 200000}}
                s.update(_flags(rng))
                specs.append(s)
            rs = w.batch(specs)
            for s, r in zip(specs, rs):
                s["_profile"] = "asan"
                judge(sh, s, r, "asan")


def replay(sh, payload):
    spec = payload["replay"]["spec"]
    prof = payload["replay"].get("profile", "R")
    if prof not in sh.bins:
        prof = "R"
    clean = {k: v for k, v in spec.items() if not k.startswith("_")}
    res = sh.worker(prof).compile(clean)
    t = clean.get("text")
    verdict, sig, detail = totality.classify(res, len(t.encode("utf-8", "surrogatepass")) if t else 0)
    print(verdict, sig, detail)
    return "held" if verdict == "excluded" else verdict
