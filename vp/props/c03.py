"""C03 — SassScript evaluation follows the language scoping and control-flow rules.
Oracle: vp/model/sassscript.py, a reference interpreter written from the specification's evaluation rules;
observations: the emitted declarations (read back with the independent CSS reader) and the Logger trace."""
import json

from .. import cssread
from ..gen import ast, program
from ..model import sassscript as M

ID = "C03"
RULE = ("random well-typed terminating programs over the modelled core (variables with shadowing/!global/!default, "
        "assignment from nested blocks and from top-level control flow, @if/@else, @for to/through ascending/descending, "
        "@each with destructuring over lists and maps, bounded @while, functions and mixins with positional/named/default/"
        "rest arguments, closures, @content with `using`, early @return from loops, operators, and/or short-circuit, string "
        "concatenation and interpolation, @debug/@warn/@error), printed as SCSS and as indented syntax, both output styles "
        "sampled. non-trivial = the program executes at least one loop iteration or call and emits >= 2 declarations or "
        "log events; distinct = distinct program texts.")
ASSUMPTIONS = ["cases outside the model (Unsupported) are inconclusive, never verdicts",
               "repeated identical (location, message) warnings are collapsed on both sides (the statement fixes only distinct messages)"]


def plan(tier):
    return {"budget_s": 60 if tier == "quick" else 600, "profiles": ["R"], "min_evaluations": 1000,
            "max_evaluations": 80000 if tier == "quick" else None}


def canon_val(text):
    try:
        return cssread.canon_value(cssread.tokenize(text))
    except cssread.CssError:
        return "?" + text


def canon_sel(text):
    try:
        return cssread.canon_selector(cssread.tokenize(text))
    except cssread.CssError:
        return "?" + text


def observed_decls(css):
    blocks, _ = cssread.read(css)
    out = []
    for ctx, sel, decls in blocks:
        if decls:
            for p, v in decls:
                out.append((ctx, sel, p, v))
    return out


def collapse(events):
    """drop repeated identical warnings from the same location"""
    seen = set()
    out = []
    for kind, where, msg in events:
        if kind == "warn":
            k = (where, msg)
            if k in seen:
                continue
            seen.add(k)
        out.append((kind, where, msg))
    return out


def judge(sh, prog, text, syntax, style, res, expect, source="generated"):
    """compare one compilation with the model's expectation. returns True if agreed"""
    h = _h(text)
    from ..core import pack
    rp = {"text": text, "syntax": syntax, "style": style, "case": pack(prog)}
    facts = {"program": text, "syntax": syntax, "style": style}
    if "panic" in res:
        msg = res["panic"].get("msg", "")
        if msg.startswith("VERIF-BUDGET"):
            sh.violation("does-not-terminate:" + h, "the model terminates but grass exceeded the step budget (%s)\n%s" % (msg, text[:600]), rp, facts)
        else:
            sh.violation("panic:" + h, "panic: %s\n%s" % (res["panic"], text[:600]), rp, facts)
        return False
    if "timeout" in res or "died" in res:
        sh.inconc("watchdog-or-death")
        return False
    want_err = expect["status"] == "error"
    if want_err != ("err" in res):
        sh.violation("status:" + h, "model says %s (%s) but grass says %s\n%s" % (
            expect["status"], expect["error"], (res.get("err") or {}).get("msg") or "ok", text[:800]), rp,
            dict(facts, model_error=expect["error"], grass=(res.get("err") or {}).get("msg")))
        return False
    # log trace (also for failing programs: events before the error)
    line_key = "scss" if syntax == "scss" else "sass"
    want_log = collapse([(k, s.line.get(line_key), m) for k, m, s in expect["log"]])
    got_log = collapse([(l[0], l[2], l[4]) for l in res.get("log", [])])
    if [(k, m) for k, w, m in want_log] != [(k, m) for k, w, m in got_log]:
        sh.violation("log-messages:" + h, "@debug/@warn messages differ\nmodel: %s\ngrass: %s\n%s" % (
            [(k, m) for k, w, m in want_log][:8], [(k, m) for k, w, m in got_log][:8], text[:800]), rp,
            dict(facts, model_log=want_log[:30], grass_log=got_log[:30]))
        return False
    if want_err:
        if expect["error"].startswith("@error:"):
            want_msg = expect["error"][len("@error:"):]
            got_msg = res["err"].get("msg")
            if got_msg != want_msg:
                sh.violation("error-message:" + h, "@error message %r, inspect() of the value is %r\n%s" % (got_msg, want_msg, text[:600]), rp, facts)
                return False
        return True
    try:
        got = observed_decls(res["ok"])
    except cssread.CssError as e:
        sh.violation("malformed-output:" + h, "output not readable: %s" % e, rp, facts)
        return False
    want = [((), canon_sel(sel), p, canon_val(v)) for sel, p, v in expect["decls"]]
    if got != want:
        i = 0
        while i < min(len(got), len(want)) and got[i] == want[i]:
            i += 1
        sh.violation("declarations:" + h, "emitted declarations differ from the reference interpreter at #%d\nmodel: %s\ngrass: %s\n%s" % (
            i, want[i:i + 3], got[i:i + 3], text[:1200]), rp, dict(facts, model=want[:60], grass=got[:60]))
        return False
    return True


def run(sh):
    rng = sh.rng
    n = 0
    while not sh.expired():
        cases = []
        for _ in range(24):
            prog = program.program(rng, rng.range(10, 40))
            try:
                expect = M.execute(prog)
            except M.Unsupported as e:
                sh.inconc("model-unsupported:" + str(e)[:30])
                continue
            cases.append((prog, expect))
        specs = []
        meta = []
        for prog, expect in cases:
            style = rng.choice(["expanded", "compressed"])
            for syntax, text in (("scss", ast.to_scss(prog)), ("sass", ast.to_sass(prog))):
                specs.append({"text": text, "syntax": syntax, "style": style, "budgets": {"steps": 500000}})
                meta.append((prog, expect, text, syntax, style))
        rs = sh.w.batch(specs)
        for (prog, expect, text, syntax, style), res in zip(meta, rs):
            sh.ev()
            ok = judge(sh, prog, text, syntax, style, res, expect)
            if ok:
                sh.count("agree_" + expect["status"])
                if len(expect["decls"]) + len(expect["log"]) >= 2:
                    sh.nontrivial(text)
                if n < 2 and expect["status"] == "ok" and len(expect["decls"]) > 2:
                    sh.sample({"program": text, "model_declarations": expect["decls"][:8], "model_log": [(k, m) for k, m, s in expect["log"]][:6]})
                    n += 1


def _h(text):
    from ..core import h64
    return "%016x" % h64(text)


def replay(sh, payload):
    from ..core import unpack, rejudge
    r = payload["replay"]
    prog = unpack(r["case"])
    expect = M.execute(prog)
    text = ast.to_scss(prog) if r["syntax"] == "scss" else ast.to_sass(prog)
    res = sh.w.compile({"text": text, "syntax": r["syntax"], "style": r["style"], "budgets": {"steps": 500000}})
    print(text)
    print("grass:", res.get("ok") or res.get("err") or res)
    print("grass log:", res.get("log"))
    print("model: %s %s" % (expect["status"], expect["decls"] if expect["status"] == "ok" else expect["error"]))
    return rejudge(sh, lambda: judge(sh, prog, text, r["syntax"], r["style"], res, expect, "replay"))
