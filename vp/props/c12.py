"""C12 — modules load once, stay isolated and expose only public members.
Oracle: vp/model/modules.py predicts, for a generated in-memory project, how often each module body runs (each
module starts with `@debug "exec <name>"`: the Logger trace is the event log), the order and multiplicity of the
modules' CSS markers, and for every probe in the entry file (`ns.$x`, `ns.f()`, `@include ns.m`, unqualified access,
assignment through a namespace) its value or error class; plus the sass:* module vs global alias table and cycles."""
import posixpath
import re

from .. import cssread, probe
from ..model import modules as M

ID = "C12"
RULE = ("DAGs of 2-6 modules in an in-memory project, each with public/private/!default variables, a function, a mixin and "
        "a marker rule; random @use (as ns / as * / default namespace / several spellings of one URL), @forward "
        "(show/hide/as prefix-*), with(...) clauses on !default and non-default variables, diamonds, configuration of an "
        "already loaded module, cycles; one probe per compilation. Built-in modules: every function of sass:math/"
        "color/meta/selector that has a global alias is called through both names on shared argument tuples. "
        "non-trivial = project with >= 2 user modules; distinct = distinct (project, probe).")
ASSUMPTIONS = ["error *classes* are compared (undefined / private / loop / not configurable / already loaded), never message wording",
               "layouts are unambiguous; URLs are resolved by the harness' in-memory Fs"]


def plan(tier):
    return {"budget_s": 55 if tier == "quick" else 500, "profiles": ["R"], "min_evaluations": 1000}


def gen_project(rng):
    n = rng.range(2, 6)
    mods = []
    for i in range(n):
        src = M.ModuleSrc("m%d" % i)
        base = 10 * (i + 1)
        src.vars.append(("a%d" % i, base + 1, rng.chance(0.5)))
        src.vars.append(("b%d" % i, base + 2, rng.chance(0.3)))
        src.vars.append((rng.choice(["-p%d", "_p%d"]) % i, base + 3, False))
        if rng.chance(0.4):
            src.vars.append(("shared", base + 4, rng.chance(0.5)))
        if rng.chance(0.35):
            # members whose own names start with the prefix this module is forwarded under (`@forward "mI" as pI-*`
            # exposes `$pI-aI` as `$pI-pI-aI`; the prefix is stripped exactly once on the way back)
            src.vars.append(("p%d-a%d" % (i, i), base + 9, rng.chance(0.3)))
            src.funcs.append(("p%d-f%d" % (i, i), base + 10))
            src.mixins.append(("p%d-x%d" % (i, i), base + 11))
            if rng.chance(0.5):
                src.vars.append(("p%d-p%d-a%d" % (i, i, i), base + 12, False))
        src.funcs.append(("f%d" % i, base + 5))
        src.funcs.append(("-pf%d" % i, base + 6))
        src.mixins.append(("x%d" % i, base + 7))
        src.marker = base + 8
        mods.append(src)
    paths = {}
    for i, src in enumerate(mods):
        paths[i] = rng.choice(["_m%d.scss", "m%d.scss", "lib/_m%d.scss", "lib/m%d.scss"]) % i
    # dependencies only towards lower indices => DAG (cycles added deliberately below)
    for i in range(n):
        deps = rng.sample(list(range(i)), min(i, rng.choice([0, 1, 1, 2])))
        for j in deps:
            url = url_for(rng, paths[j], paths[i])
            if rng.chance(0.6):
                ns = rng.choice(["m%d" % j, "n%d" % j, None])
                uwith = None
                if rng.chance(0.25):
                    v = rng.choice(mods[j].vars)
                    uwith = {M.norm_name(v[0]): 500 + i}
                mods[i].uses.append((url, ns if ns else default_ns(url), uwith))
            else:
                k = rng.below(5)
                vnames = ["$" + M.norm_name(v[0]) for v in mods[j].vars if not M.is_private(v[0])]
                fnames = [M.norm_name(f[0]) for f in mods[j].funcs if not M.is_private(f[0])] + [M.norm_name(x[0]) for x in mods[j].mixins]
                prefix = rng.choice([None, None, "p%d-" % j])
                show = hide = None
                pick = rng.sample(vnames + fnames, rng.range(1, 2))
                pick = [("$" + prefix + p[1:] if p.startswith("$") else prefix + p) if prefix else p for p in pick]
                if k == 0:
                    show = set(pick)
                elif k == 1:
                    hide = set(pick)
                mods[i].forwards.append((url, show, hide, prefix, None))
    cycle = rng.chance(0.06)
    if cycle:
        i, j = 0, n - 1
        mods[i].uses.append((url_for(rng, paths[j], paths[i]), "cyc", None))
    files = {paths[i]: mods[i] for i in range(n)}
    return mods, paths, files, cycle


def default_ns(url):
    b = posixpath.basename(url)
    for e in (".scss", ".sass", ".css"):
        if b.endswith(e):
            b = b[:-len(e)]
    return b.lstrip("_")


def url_for(rng, target, importer):
    """one of several spellings that resolve to `target` from `importer`"""
    d = posixpath.dirname(target)
    b = posixpath.basename(target)
    stem = b[:-len(".scss")].lstrip("_")
    rel = posixpath.relpath(posixpath.join(d, stem), posixpath.dirname(importer) or ".")
    forms = [rel, "./" + rel, rel + ".scss" if not b.startswith("_") else rel, posixpath.join(posixpath.dirname(rel), "x", "..", posixpath.basename(rel)) if False else rel]
    return rng.choice(forms)


def print_module(src):
    out = []
    for (u, show, hide, prefix, fwith) in src.forwards:
        s = '@forward "%s"' % u
        if prefix:
            s += " as %s*" % prefix
        if show is not None:
            s += " show " + ", ".join(sorted(show))
        if hide is not None:
            s += " hide " + ", ".join(sorted(hide))
        out.append(s + ";")
    for (u, ns, uwith) in src.uses:
        s = '@use "%s"' % u
        if ns == "*":
            s += " as *"
        elif ns != default_ns(u):
            s += " as %s" % ns
        if uwith:
            s += " with (%s)" % ", ".join("$%s: %s" % kv for kv in uwith.items())
        out.append(s + ";")
    out.append('@debug "exec %s";' % src.name)
    for (name, value, is_default) in src.vars:
        out.append("$%s: %d%s;" % (name, value, " !default" if is_default else ""))
    for (name, ret) in src.funcs:
        out.append("@function %s() { @return %d; }" % (name, ret))
    for (name, mk) in src.mixins:
        out.append("@mixin %s { mix: %d; }" % (name, mk))
    if src.marker is not None:
        out.append(".%s { marker: %d; }" % (src.name, src.marker))
    return "\n".join(out) + "\n"


def resolver(paths_set):
    from ..model import imports as I

    def resolve(url, importer):
        chosen, _, _ = I.resolve(url, importer, [], paths_set, False)
        return chosen
    return resolve


def gen_probes(rng, mods, entry_uses):
    """probes against the entry's namespaces: (text, kind, ns, member)"""
    out = []
    for (u, ns, uwith, j) in entry_uses:
        m = mods[j]
        cand = []
        for v in m.vars:
            cand.append(("var", v[0]))
        for f in m.funcs:
            cand.append(("func", f[0]))
        for x in m.mixins:
            cand.append(("mixin", x[0]))
        # forwarded members (possibly prefixed)
        for (fu, show, hide, prefix, _) in m.forwards:
            for jj, mm in enumerate(mods):
                for v in mm.vars:
                    cand.append(("var", (prefix or "") + v[0]))
                    if prefix:
                        cand.append(("var", v[0]))
                for f in mm.funcs:
                    cand.append(("func", (prefix or "") + f[0]))
                for x in mm.mixins:
                    cand.append(("mixin", (prefix or "") + x[0]))
        cand.append(("var", "nope"))
        for kind, name in rng.sample(cand, min(len(cand), 6)):
            out.append((kind, ns, name))
    return out


def probe_text(kind, ns, name):
    q = "" if ns == "*" else ns + "."
    if kind == "var":
        return "a { p: %s$%s; }" % (q, name)
    if kind == "func":
        return "a { p: %s%s(); }" % (q, name)
    return "a { @include %s%s; }" % (q, name)


def run(sh):
    rng = sh.rng
    if sh.shard == 0:
        alias_table(sh)
    n = 0
    while not sh.expired():
        mods, paths, files, cycle = gen_project(rng)
        k = len(mods)
        # entry uses 1-3 of the modules
        entry_uses = []
        used_ns = set()
        for j in rng.sample(list(range(k)), rng.range(1, min(3, k))):
            url = url_for(rng, paths[j], "main.scss")
            ns = rng.choice(["m%d" % j, "z%d" % j, default_ns(url)])
            if ns in used_ns:
                continue
            used_ns.add(ns)
            uwith = None
            if rng.chance(0.3):
                v = rng.choice(mods[j].vars)
                uwith = {M.norm_name(v[0]): 900 + j}
            entry_uses.append((url, ns, uwith, j))
        if rng.chance(0.15) and entry_uses:
            # the same module through a second spelling and namespace
            u0 = entry_uses[0]
            entry_uses.append((url_for(rng, paths[u0[3]], "main.scss"), "again", None, u0[3]))
        header = []
        for (u, ns, uwith, j) in entry_uses:
            s = '@use "%s"' % u
            if ns != default_ns(u):
                s += " as %s" % ns
            if uwith:
                s += " with (%s)" % ", ".join("$%s: %s" % kv for kv in uwith.items())
            header.append(s + ";")
        header_text = "\n".join(header) + "\n@debug \"exec main\";\n"
        file_texts = {p: print_module(src) for p, src in files.items()}
        probes = gen_probes(rng, mods, entry_uses)
        # assignment through the namespace is visible through another namespace of the same module
        extra = []
        if len(entry_uses) >= 2 and entry_uses[-1][1] == "again":
            u0 = entry_uses[0]
            v = mods[u0[3]].vars[0][0]
            extra.append(("%s.$%s: 4242;\na { p: again.$%s; }" % (u0[1], v, v), "assign", u0[1], v))
        specs = []
        for kind, ns, name in probes:
            specs.append({"entry": "main.scss", "files": dict(file_texts, **{"main.scss": header_text + probe_text(kind, ns, name) + "\n"})})
        for text, kind, ns, name in extra:
            specs.append({"entry": "main.scss", "files": dict(file_texts, **{"main.scss": header_text + text + "\n"})})
        rs = sh.w.batch(specs)
        all_probes = [(k_, ns, nm, None) for k_, ns, nm in probes] + [(kind, ns, nm, text) for text, kind, ns, nm in extra]
        for (kind, ns, name, text), spec, res in zip(all_probes, specs, rs):
            judge(sh, mods, paths, files, entry_uses, cycle, kind, ns, name, spec, res)
        if n < 2:
            sh.sample({"files": {p: t for p, t in list(file_texts.items())[:3]}, "entry": header_text})
            n += 1


def expected(mods, files, entry_uses, kind, ns, name):
    """-> ('value', v) | ('mixin', marker) | ('error', class), exec log, css order"""
    proj = M.Project(files, resolver(set(files)))
    namespaces = {}
    try:
        for (u, nsx, uwith, j) in entry_uses:
            namespaces[nsx] = proj.load(u, "main.scss", uwith)
    except M.ModErr as e:
        return ("error", e.cls), proj.exec_log, proj.css
    proj.exec_log.append("main")
    if kind == "assign":
        mod = namespaces[ns]
        r = mod.lookup("var", name)
        if r is None:
            return ("error", "undefined"), proj.exec_log, proj.css
        r[0].vars[r[1]] = 4242
        other = namespaces["again"].lookup("var", name)
        return ("value", other[0].vars[other[1]]), proj.exec_log, proj.css
    mod = namespaces.get(ns)
    if mod is None:
        return ("error", "no-namespace"), proj.exec_log, proj.css
    if M.is_private(name):
        return ("error", "private"), proj.exec_log, proj.css
    r = mod.lookup(kind, name)
    if r is None:
        return ("error", "undefined"), proj.exec_log, proj.css
    m, inner = r
    if kind == "var":
        return ("value", m.vars[inner]), proj.exec_log, proj.css
    if kind == "func":
        return ("value", m.funcs[inner]), proj.exec_log, proj.css
    return ("mixin", m.mixins[inner]), proj.exec_log, proj.css


def judge(sh, mods, paths, files, entry_uses, cycle, kind, ns, name, spec, res):
    sh.ev()
    from ..core import h64
    h = "%016x" % h64(str(sorted(spec["files"].items())))
    rp = {"spec": spec}
    facts = {"files": spec["files"], "probe": "%s %s.%s" % (kind, ns, name)}
    if "panic" in res:
        sh.violation("panic:" + h, "panic: %s" % res["panic"], rp, facts)
        return
    try:
        exp, exec_log, css_order = expected(mods, files, entry_uses, kind, ns, name)
    except (KeyError, RecursionError):
        sh.inconc("model-gap")
        return
    except M.ModErr as e:
        sh.inconc("outside-fragment:" + e.cls)
        return
    got_exec = [l[4].replace("exec ", "") for l in res.get("log", []) if l[0] == "debug" and l[4].startswith("exec ")]
    if exp == ("error", "ambiguous"):
        sh.inconc("outside-fragment:ambiguous")
        return
    if exp[0] == "error":
        if "err" not in res:
            sh.violation("should-fail:%s:%s" % (exp[1], h), "expected an error of class `%s` for probe `%s %s.%s` but it compiled: %s\n%s" % (
                exp[1], kind, ns, name, (res.get("ok") or "")[:200], _show(spec)), rp, dict(facts, expected=exp[1]))
        else:
            sh.count("agree_error_" + exp[1])
            sh.nontrivial(h)
        return
    if "ok" not in res:
        sh.violation("should-compile:" + h, "probe `%s %s.%s` should give %s but failed: %s\n%s" % (kind, ns, name, exp, (res.get("err") or {}).get("msg"), _show(spec)),
                     rp, dict(facts, expected=str(exp), error=(res.get("err") or {}).get("msg")))
        return
    # execution counts: every loaded module exactly once, in load order
    if got_exec != exec_log:
        sh.violation("execution-count:" + h, "module bodies ran %s, the module system prescribes %s (each loaded module exactly once)\n%s" % (got_exec, exec_log, _show(spec)),
                     rp, dict(facts, ran=got_exec, expected=exec_log))
        return
    css = res["ok"]
    markers = re.findall(r"\.(m\d+) \{\s*marker:", css)
    if markers != css_order:
        sh.violation("css-order:" + h, "module CSS appears as %s, expected each loaded module once in dependency order %s\n%s" % (markers, css_order, _show(spec)),
                     rp, dict(facts, markers=markers, expected=css_order))
        return
    if exp[0] == "value":
        m = re.search(r"a \{\s*p: ([^;]+);", css)
        if not m or m.group(1).strip() != str(exp[1]):
            sh.violation("member-value:" + h, "probe `%s %s.%s` = %s, expected %s\n%s" % (kind, ns, name, m.group(1) if m else None, exp[1], _show(spec)), rp, dict(facts, expected=exp[1]))
            return
    else:
        m = re.search(r"a \{\s*mix: ([^;]+);", css)
        if not m or m.group(1).strip() != str(exp[1]):
            sh.violation("mixin-value:" + h, "probe `@include %s.%s` emitted %s, expected mix: %s\n%s" % (ns, name, m.group(1) if m else None, exp[1], _show(spec)), rp, dict(facts, expected=exp[1]))
            return
    sh.count("agree_" + exp[0])
    if len(mods) >= 2:
        sh.nontrivial(h)


def _show(spec):
    return "\n".join("--- %s\n%s" % (p, t) for p, t in sorted(spec["files"].items()))[:1800]


ALIASES = [
    ("math.ceil", "ceil", ["1.2", "-1.5px"]), ("math.floor", "floor", ["1.7", "-0.5"]), ("math.round", "round", ["1.5", "2.4px"]),
    ("math.abs", "abs", ["-3", "2px"]), ("math.max", "max", ["1, 3, 2", "1px, 2px"]), ("math.min", "min", ["1, 3, 2", "5px, 2px"]),
    ("math.percentage", "percentage", ["0.5", "1.25"]), ("math.unit", "unit", ["1px", "1", "1px*1em"]), ("math.is-unitless", "unitless", ["1", "1px"]),
    ("math.compatible", "comparable", ["1px, 1in", "1px, 1s", "1, 1px"]),
    ("color.red", "red", ["#123456"]), ("color.green", "green", ["#123456"]), ("color.blue", "blue", ["#123456"]), ("color.hue", "hue", ["#123456"]),
    ("color.saturation", "saturation", ["#123456"]), ("color.lightness", "lightness", ["#123456"]), ("color.alpha", "alpha", ["rgba(1,2,3,.5)"]),
    ("color.mix", "mix", ["red, blue", "red, blue, 25%"]), ("color.invert", "invert", ["#123456", "#123456, 50%"]), ("color.complement", "complement", ["#123456"]),
    ("color.grayscale", "grayscale", ["#123456"]), ("color.adjust", "adjust-color", ["#123456, $red: 5", "#123456, $lightness: 10%"]),
    ("color.scale", "scale-color", ["#123456, $red: 5%"]), ("color.change", "change-color", ["#123456, $blue: 7"]), ("color.ie-hex-str", "ie-hex-str", ["#123456"]),
    ("selector.nest", "selector-nest", ['"a", "b"', '"a, b", "&-c"']), ("selector.append", "selector-append", ['"a", ".b"']),
    ("selector.extend", "selector-extend", ['"a.b", ".b", ".c"']), ("selector.replace", "selector-replace", ['"a.b", ".b", ".c"']),
    ("selector.unify", "selector-unify", ['"a", ".b"', '"a", "b"']), ("selector.is-superselector", "is-superselector", ['"a", "a.b"', '"a.b", "a"']),
    ("selector.parse", "selector-parse", ['"a > b, c"']), ("selector.simple-selectors", "simple-selectors", ['"a.b#c"']),
    ("meta.type-of", "type-of", ["1", "a", "(a: 1)", "()"]), ("meta.inspect", "inspect", ["(a: 1)", '"x"', "null"]),
    ("meta.feature-exists", "feature-exists", ["at-error", "nope"]), ("meta.function-exists", "function-exists", ["length", "nope"]),
    ("meta.variable-exists", "variable-exists", ["nope"]), ("meta.global-variable-exists", "global-variable-exists", ["nope"]),
    ("meta.mixin-exists", "mixin-exists", ["nope"]), ("meta.call", "call", ["get-function(length), 1 2 3"]),
]


def alias_table(sh):
    exprs = []
    for mod_fn, glob, argsets in ALIASES:
        for a in argsets:
            exprs.append("%s(%s)" % (mod_fn, a))
            exprs.append("%s(%s)" % (glob, a))
    got = probe.eval_many(sh.w, exprs)
    i = 0
    for mod_fn, glob, argsets in ALIASES:
        for a in argsets:
            sh.ev()
            r1, r2 = got[i], got[i + 1]
            i += 2
            if r1[0] == "panic" or r2[0] == "panic":
                sh.violation("panic:%s(%s)" % (mod_fn, a), "panic: %s / %s" % (r1, r2), {"expr": "%s(%s)" % (mod_fn, a)}, {})
            elif (r1[0] != r2[0]) or (r1[0] == "ok" and r1[1] != r2[1]):
                sh.violation("alias-differs:%s(%s)" % (mod_fn, a), "%s(%s) = %s but %s(%s) = %s" % (mod_fn, a, str(r1)[:150], glob, a, str(r2)[:150]),
                             {"exprs": ["%s(%s)" % (mod_fn, a), "%s(%s)" % (glob, a)]}, {"module": mod_fn, "global": glob, "args": a})
            else:
                sh.count("builtin_alias_pairs_agree")
                sh.nontrivial(mod_fn + a)


def replay(sh, payload):
    r = payload["replay"]
    if "spec" in r:
        print(_show(r["spec"]))
        print(sh.w.compile(r["spec"]))
    for e in r.get("exprs", []):
        print(e, "->", probe.eval_many(sh.w, [e]))
    return "see output"
