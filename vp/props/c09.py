"""C09 — equality is an equivalence consistent with !=, map keys and index().
Oracle: the algebraic laws themselves over a universe of representative values (all pairs, all triples via
equivalence-class closure), cross-operation agreement of every keyed operation with grass's own `==`
answers observed in the same run, and an insertion-ordered association-list model for map operation sequences."""
import json

from .. import probe

ID = "C09"
RULE = ("universe U of representative value expressions (numbers equal after conversion, quoted/unquoted strings, colour "
        "spellings, lists differing in separator/brackets, nested maps in different key order, null/booleans, empty list vs "
        "empty map, arglists, function references, calculations); ALL ordered pairs are evaluated for ==, !=, map-has-key, "
        "map-get, index, map-merge/map-remove/map.set sizes inside one compilation, all triples are decided through row "
        "equality (a==b implies identical rows); duplicate-key map literals are compiled pairwise; random map operation "
        "sequences (length <= 8) are checked against an association-list model. non-trivial = pair of distinct universe "
        "members / sequence with >= 3 operations; distinct = distinct pair or sequence.")
ASSUMPTIONS = ["NaN is excluded (IEEE NaN != NaN is C07's subject)",
               "which of two equal keys is retained by a merge is not fixed by the statement: key sequences are compared modulo =="]

U = [
    "1", "1.0", "1in", "96px", "2.54cm", "72pt", "6pc", "25.4mm", "1.000000000001", "1.0000001", "0", "-0", "0px", "100%", "1px",
    "1em", "1deg", "1s", "1000ms", "360deg", "1turn", "(1/2)", "0.5", "math.div(1, 2)", "1px*1px",
    '"a"', "a", "'a'", '"a b"', "a-b", '""', 'unquote("")', '"1"', '"true"', '"null"', "\"red\"", "A",
    "red", "#f00", "#ff0000", "rgb(255, 0, 0)", "rgba(255, 0, 0, 1)", "hsl(0, 100%, 50%)", "rgba(255, 0, 0, 0.5)",
    "transparent", "rgba(0, 0, 0, 0)", "blue", "#0000ff", "hwb(0, 0%, 0%)", "rgba(red, 0.5)",
    "(1 2)", "(1, 2)", "[1 2]", "[1, 2]", "(1,)", "[1]", "()", "[]", "(a b)", "(a, b)", "((1 2) 3)", "(1 2 3)",
    "(1 (2 3))", "join((), (), comma)", "list.slash(1, 2)", "append((), 1)", "(1in 96px)", "(96px 1in)", "(\"a\" b)", "(a \"b\")",
    "(a: 1)", "(a: 1, b: 2)", "(b: 2, a: 1)", '("a": 1)', "map-remove((a: 1), a)", "(a: (b: 1))", "(a: (b: 1.0))", "(1in: x)", "(96px: x)",
    "((a: 1),)", "(a 1)",
    "null", "true", "false", "not null",
    "al(1, 2)", "al()", "al(1)", "al(a, b)", "al((1 2))",
    "get-function(length)", 'get-function("length")', "get-function(nth)", "get-function(uf)", "get-function(uf2)",
    "calc(1px + 1%)", "calc(1% + 1px)", "calc(1px + 2%)", "calc(var(--a))", "min(1px, 1%)",
    # the same value reached through different construction routes (values may carry hidden representation state)
    "gray", "#808080", "hsl(0, 0%, 50%)", "hsl(120, 0%, 50%)", "hwb(120, 50%, 50%)", "mix(black, white)", "adjust-hue(gray, 90deg)",
    "complement(hsl(40, 0%, 50%))", "desaturate(hsl(200, 60%, 50%), 100%)", "grayscale(hsl(10, 100%, 50%))",
    "white", "hsl(0, 100%, 100%)", "hsl(240, 30%, 100%)", "lighten(hsl(90, 50%, 50%), 100%)", "black", "hsl(77, 40%, 0%)", "darken(red, 100%)",
    "lighten(red, 0%)", "saturate(#f00, 0%)", "change-color(blue, $hue: 0)", "adjust-hue(hsl(240, 100%, 50%), 120deg)", "invert(cyan)",
    "0.5 + 0.5", "math.div(96px, 1)", "1in + 0px", "0.1 + 0.2", "0.3", "unquote(\"a\")", "\"a\" + \"\"", "str-slice(\"ab\", 1, 1)", "to-lower-case(A)",
    "join(1, 2)", "append(1, 2)", "join((1,), (2,))", "map-merge((a: 1), (b: 2))", "map-merge((b: 2), (a: 1))", "map-remove((a: 1, c: 3), c)",
    "nth(((a: 1),), 1)", "if(true, null, 1)", "1 == 1", "not false",
]
PRE = ("@function al($a...) { @return $a; }\n@function uf() { @return 1; }\n@function uf2() { @return 1; }\n")


def plan(tier):
    return {"budget_s": 45 if tier == "quick" else 400, "profiles": ["R"], "min_evaluations": 1000}


def universe_sheet(n):
    lines = [probe.PRELUDE, PRE, "$u: ();"]
    for e in U:
        lines.append("$u: append($u, %s, comma);" % e)
    lines.append("""
a {
  $n: length($u);
  @for $i from 1 through $n {
    $x: nth($u, $i);
    $eq: ""; $ne: ""; $has: ""; $get: ""; $idx: ""; $mrg: ""; $rem: ""; $set: "";
    @for $j from 1 through $n {
      $y: nth($u, $j);
      $eq: $eq + if($x == $y, "1", "0");
      $ne: $ne + if($x != $y, "1", "0");
      $m: ($x: 1);
      $has: $has + if(map-has-key($m, $y), "1", "0");
      $get: $get + if(map-get($m, $y) == 1, "1", "0");
      $idx: $idx + if(index(append((), $x), $y) == 1, "1", "0");
      $mrg: $mrg + if(length(map-keys(map-merge($m, ($y: 2)))) == 1, "1", "0");
      $rem: $rem + if(length(map-keys(map-remove($m, $y))) == 0, "1", "0");
      $set: $set + if(length(map-keys(map.set($m, $y, 2))) == 1, "1", "0");
    }
    $_: vp-emit($i, $eq, $ne, $has, $get, $idx, $mrg, $rem, $set);
  }
}
""")
    return "\n".join(lines)


NAMES = ["==", "!=", "map-has-key", "map-get", "index", "map-merge(size)", "map-remove(size)", "map.set(size)"]


def matrices(sh):
    res = sh.w.compile({"text": universe_sheet(len(U)), "budgets": {"steps": 20000000, "lexer_reads": 2000000000}}, timeout=120)
    sh.ev(len(U) * len(U))
    if "ok" not in res:
        return None, res
    rows = {}
    for rec in res.get("probe", []):
        i = int(probe.f64(rec[0]["bits"])) - 1
        rows[i] = [r["v"] for r in rec[1:]]
    return rows, res


def run(sh):
    rng = sh.rng
    n = len(U)
    rows, res = matrices(sh)
    if rows is None or len(rows) != n:
        sh.violation("universe-does-not-evaluate", "the universe stylesheet failed: %s" % str(res)[:400], {"sheet": universe_sheet(n)}, {"res": str(res)[:400]})
        return
    eq = [[rows[i][0][j] == "1" for j in range(n)] for i in range(n)]
    if sh.shard == 0:
        for i in range(n):
            if not eq[i][i]:
                sh.violation("not-reflexive:" + U[i], "`%s == %s` is false" % (U[i], U[i]), {"expr": "%s == %s" % (U[i], U[i])}, {"a": U[i]})
            for j in range(n):
                pair = "%s | %s" % (U[i], U[j])
                if i != j:
                    sh.nontrivial(pair)
                if eq[i][j] != eq[j][i]:
                    sh.violation("not-symmetric:" + pair, "`%s == %s` is %s but `%s == %s` is %s" % (U[i], U[j], eq[i][j], U[j], U[i], eq[j][i]),
                                 {"exprs": ["%s == %s" % (U[i], U[j]), "%s == %s" % (U[j], U[i])]}, {"a": U[i], "b": U[j]})
                if (rows[i][1][j] == "1") == eq[i][j]:
                    sh.violation("neq-not-negation:" + pair, "`%s != %s` and `==` agree (%s)" % (U[i], U[j], eq[i][j]),
                                 {"exprs": ["%s != %s" % (U[i], U[j])]}, {"a": U[i], "b": U[j]})
                for k in range(2, 8):
                    if (rows[i][k][j] == "1") != eq[i][j]:
                        sh.violation("keyed-op-disagrees:%s:%s" % (NAMES[k], pair),
                                     "%s with key/element `%s` and probe `%s` says %s but `==` says %s" % (NAMES[k], U[i], U[j], rows[i][k][j] == "1", eq[i][j]),
                                     {"a": U[i], "b": U[j], "op": NAMES[k]}, {"a": U[i], "b": U[j], "op": NAMES[k]})
                # transitivity through row equality: a==b => rows identical (covers all triples)
                if eq[i][j] and eq[j][i] and rows[i][0] != rows[j][0]:
                    c = next(k for k in range(n) if rows[i][0][k] != rows[j][0][k])
                    sh.violation("not-transitive:%s|%s" % (pair, U[c]),
                                 "`%s == %s` but they disagree about `%s` (%s vs %s)" % (U[i], U[j], U[c], rows[i][0][c], rows[j][0][c]),
                                 {"a": U[i], "b": U[j], "c": U[c]}, {"a": U[i], "b": U[j], "c": U[c]})
        sh.counters["pairs_checked"] = n * n
        sh.counters["equal_pairs_observed"] = sum(sum(r) for r in eq) - n
        sh.counters["equivalence_classes"] = len(set(rows[i][0] for i in range(n)))
        sh.sample({"a": U[2], "b": U[3], "a==b": eq[2][3], "row_of_a": rows[2][0]})

    # class id per universe member (by its == row)
    cid = {}
    klass = []
    for i in range(n):
        klass.append(cid.setdefault(rows[i][0], len(cid)))

    # duplicate keys in map literals: (a: 1, b: 2) must be rejected iff a == b
    pairs = [(i, j) for i in range(n) for j in range(n)]
    mine = [p for k, p in enumerate(pairs) if k % sh.nshards == sh.shard]
    if sh.tier == "quick":
        mine = rng.sample(mine, min(len(mine), 500)) + [(i, i) for i in range(sh.shard, n, sh.nshards)]
    for base in range(0, len(mine), 64):
        chunk = mine[base:base + 64]
        specs = [{"text": probe.PRELUDE + PRE + "$m: (%s: 1, %s: 2); a { b: length($m); }" % (U[i], U[j])} for i, j in chunk]
        for (i, j), r in zip(chunk, sh.w.batch(specs)):
            sh.ev()
            rejected = "err" in r and "uplicate" in (r["err"].get("msg") or "")
            if "err" in r and not rejected:
                sh.inconc("map-literal-other-error")
                continue
            if rejected != eq[i][j]:
                sh.violation("duplicate-key-check:%s|%s" % (U[i], U[j]),
                             "map literal (%s: 1, %s: 2) %s although `==` says %s" % (U[i], U[j], "rejected" if rejected else "accepted", eq[i][j]),
                             {"spec": specs[0]}, {"a": U[i], "b": U[j]})
            else:
                sh.count("duplicate_key_agrees")

    # map operation sequences vs association-list model
    keys_pool = [i for i in range(n) if not U[i].startswith("al(") or True]
    while not sh.expired():
        cases = []
        for _ in range(40):
            ops = []
            for _ in range(rng.range(2, 8)):
                k = rng.below(5)
                if k == 0:
                    ops.append(("set", rng.choice(keys_pool), rng.below(100)))
                elif k == 1:
                    ops.append(("merge", [(rng.choice(keys_pool), rng.below(100)) for _ in range(rng.range(1, 3))]))
                elif k == 2:
                    ops.append(("remove", rng.choice(keys_pool)))
                elif k == 3:
                    ops.append(("merge-into-new", [(rng.choice(keys_pool), rng.below(100)) for _ in range(rng.range(1, 2))]))
                else:
                    ops.append(("deep-merge", [(rng.choice(keys_pool), rng.below(100)) for _ in range(rng.range(1, 2))]))
            cases.append(ops)
        run_sequences(sh, cases, klass, eq)


def _lit(entries):
    return "(" + ", ".join("%s: %d" % (U[k], v) for k, v in entries) + ")" if entries else "()"


def valid_literal(entries, eq):
    return all(not eq[a[0]][b[0]] for x, a in enumerate(entries) for b in entries[x + 1:])


def model(ops, eq):
    m = []  # list of [key_index, value]

    def find(k):
        for e in m:
            if eq[e[0]][k]:
                return e
        return None
    for op in ops:
        if op[0] == "set":
            e = find(op[1])
            if e:
                e[1] = op[2]
            else:
                m.append([op[1], op[2]])
        elif op[0] in ("merge", "deep-merge"):
            for k, v in op[1]:
                e = find(k)
                if e:
                    e[1] = v
                else:
                    m.append([k, v])
        elif op[0] == "remove":
            e = find(op[1])
            if e:
                m.remove(e)
        elif op[0] == "merge-into-new":
            new = [[k, v] for k, v in op[1]]
            old = m
            m = new
            for k, v in old:
                e = find(k)
                if e:
                    e[1] = v
                else:
                    m.append([k, v])
            # map-merge($new, $m): keys of $new first, values from $m win
    return m


def run_sequences(sh, cases, klass, eq):
    good = []
    for ops in cases:
        if all(valid_literal(op[1], eq) for op in ops if op[0] in ("merge", "merge-into-new", "deep-merge")):
            good.append(ops)
    lines = [probe.PRELUDE, PRE, "$u: ();"]
    for e in U:
        lines.append("$u: append($u, %s, comma);" % e)
    lines.append("@function cls($k) { @return index($u, $k); }")
    lines.append("a {")
    for ci, ops in enumerate(good):
        lines.append("$m: ();")
        for op in ops:
            if op[0] == "set":
                lines.append("$m: map.set($m, %s, %d);" % (U[op[1]], op[2]))
            elif op[0] == "merge":
                lines.append("$m: map-merge($m, %s);" % _lit(op[1]))
            elif op[0] == "deep-merge":
                lines.append("$m: map.deep-merge($m, %s);" % _lit(op[1]))
            elif op[0] == "remove":
                lines.append("$m: map-remove($m, %s);" % U[op[1]])
            else:
                lines.append("$m: map-merge(%s, $m);" % _lit(op[1]))
        lines.append("$ks: (); $vs: (); $ek: (); $ev: ();")
        lines.append("@each $k in map-keys($m) { $ks: append($ks, cls($k), comma); }")
        lines.append("@each $v in map-values($m) { $vs: append($vs, $v, comma); }")
        lines.append("@each $k, $v in $m { $ek: append($ek, cls($k), comma); $ev: append($ev, $v, comma); }")
        lines.append("$_: vp-emit(%d, $ks, $vs, $ek, $ev, length($m), inspect($m));" % ci)
    lines.append("}")
    src = "\n".join(lines)
    res = sh.w.compile({"text": src, "budgets": {"steps": 20000000, "lexer_reads": 2000000000}}, timeout=60)
    sh.ev(len(good))
    if "ok" not in res:
        if len(good) > 1:
            for ops in good:
                run_sequences(sh, [ops], klass, eq)
            sh.ev(-len(good))
            return
        if not good:
            return
        sh.violation("map-sequence-fails:" + json.dumps(_desc(good[0])), "map operation sequence does not evaluate: %s\n%s" % (
            str(res.get("err") or res)[:300], _desc(good[0])), {"ops": _desc(good[0]), "src": src}, {"ops": _desc(good[0])})
        return
    got = {}
    for rec in res.get("probe", []):
        got[int(probe.f64(rec[0]["bits"]))] = rec[1:]

    def ints(d):
        if d.get("t") == "n":
            return [int(probe.f64(d["bits"]))]
        if d.get("t") in ("l", "al"):
            return [int(probe.f64(x["bits"])) if x.get("t") == "n" else None for x in d["v"]]
        return []
    for ci, ops in enumerate(good):
        m = model(ops, eq)
        rec = got.get(ci)
        if rec is None:
            sh.inconc("sequence-not-reported")
            continue
        # `cls($k)` is index($u, $k) = first universe member == $k (1-based): compare class ids
        first = {}
        for i in range(len(U)):
            first.setdefault(klass[i], i)
        want_keys = [first[klass[k]] + 1 for k, v in m]
        want_vals = [v for k, v in m]
        ks, vs, ek, ev = ints(rec[0]), ints(rec[1]), ints(rec[2]), ints(rec[3])
        ln = int(probe.f64(rec[4]["bits"]))
        problems = []
        if ks != want_keys:
            problems.append("map-keys order %s, model %s" % (ks, want_keys))
        if vs != want_vals:
            problems.append("map-values %s, model %s" % (vs, want_vals))
        if ek != want_keys or ev != want_vals:
            problems.append("@each order %s/%s, model %s/%s" % (ek, ev, want_keys, want_vals))
        if ln != len(m):
            problems.append("length %d, model %d" % (ln, len(m)))
        if problems:
            sh.violation("map-order:" + json.dumps(_desc(ops)), "map operation sequence disagrees with the insertion-ordered model: %s\nops: %s" % (
                "; ".join(problems), _desc(ops)), {"ops": _desc(ops)}, {"ops": _desc(ops), "problems": problems})
        else:
            sh.count("map_sequences_agree")
            if len(ops) >= 3:
                sh.nontrivial(json.dumps(_desc(ops)))


def _desc(ops):
    out = []
    for op in ops:
        if op[0] in ("set",):
            out.append(["set", U[op[1]], op[2]])
        elif op[0] == "remove":
            out.append(["remove", U[op[1]]])
        else:
            out.append([op[0], [[U[k], v] for k, v in op[1]]])
    return out


def replay(sh, payload):
    print(json.dumps(payload["replay"], indent=1)[:2000])
    r = payload["replay"]
    for e in r.get("exprs", []) + ([r["expr"]] if "expr" in r else []):
        print(e, "->", probe.eval_many(sh.w, [e], prelude=PRE))
    if "a" in r and "b" in r:
        for e in ("%s == %s" % (r["a"], r["b"]), "%s == %s" % (r["b"], r["a"])):
            print(e, "->", probe.eval_many(sh.w, [e], prelude=PRE))
    return "see output"
