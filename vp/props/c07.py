"""C07 — numbers are IEEE doubles with Sass rounding, modulo and printing rules.
Oracles (all independent of grass): Python floats are IEEE doubles (bit-exact + - * / on the operand values the
probe reports); Sass modulo rule; three-valued tolerance oracle for ==/ordering/rounding/integer checks; Python
`math` for sass:math; `decimal` for the correctly rounded 10-digit text of every printed number."""
import math
import re
import struct
from decimal import Decimal, ROUND_HALF_UP, ROUND_HALF_EVEN

from .. import probe

ID = "C07"
RULE = ("operands from boundary-seeking generators (k+0.5+-d, k+-1e-10/1e-11/1e-12, 0.99999999995, powers of ten 1e-12..1e18, "
        "subnormal-ish, +-0, results of chains of operations); each literal is checked to parse to the nearest double; each pair "
        "goes through + - * % math.div and unary minus (bit-exact vs IEEE), ==/</<= (three-valued 1e-11 tolerance oracle), "
        "round/ceil/floor/abs, nth()/@for integer acceptance; sass:math functions vs Python math; every value is printed in "
        "both styles and compared with the correctly rounded 10-digit decimal. non-trivial = value is not a small integer; "
        "distinct = distinct operand bit patterns / expressions.")
ASSUMPTIONS = [
    "tolerance oracle is three-valued: must be equal when both values round to the same multiple of 1e-11 and differ by <= 1e-11, must differ when |a-b| > 1e-11, either answer accepted in between",
    "round/ceil/floor near an integer (within 1e-11) may give the fuzzy or the exact result",
    "printing: round-half-up and round-half-even are both accepted where the exact decimal expansion is a tie",
    "sass:math results are compared with Python's libm within 1e-9 relative",
]


def plan(tier):
    return {"budget_s": 50 if tier == "quick" else 500, "profiles": ["R"], "min_evaluations": 2000}


def bits(x):
    return struct.pack(">d", x).hex()


def lit(x):
    """a Sass literal for the double x (plain decimal, no exponent unless small/large)"""
    if x == 0:
        return "-0.0" if math.copysign(1, x) < 0 else "0"
    r = repr(x)
    if "e" in r or "E" in r:
        # exponents are part of the literal grammar; keep them (parse check covers them)
        return r
    return r


def gen_value(rng):
    k = rng.below(14)
    if k == 0:
        return float(rng.range(-20, 20))
    if k == 1:
        return rng.range(-50, 50) + 0.5 + rng.choice([0, 1e-10, -1e-10, 1e-11, -1e-11, 1e-12, -1e-12, 5e-12])
    if k == 2:
        return rng.range(-9, 9) + rng.choice([1e-10, -1e-10, 1e-11, -1e-11, 1e-12, -1e-12, 4.9e-11, 5.1e-11, -4.9e-11])
    if k == 3:
        return rng.choice([0.99999999995, 0.999999999951, 0.99999999994, -0.00000000001, 0.00000000005, 0.000000000049, 0.9999999999, 0.99999999999])
    if k == 4:
        return 10.0 ** rng.range(-12, 18) * rng.choice([1, -1, 3, 0.7])
    if k == 5:
        return rng.choice([0.0, -0.0, 1e-300, 5e-324, 1.7976931348623157e308, 2.0 ** 53, 2.0 ** 53 + 2, 0.1, 0.2, 0.3, 1 / 3])
    if k == 6:
        return rng.range(-1000, 1000) / 10.0
    if k == 7:
        return rng.range(-100000, 100000) / 1000.0
    if k == 8:
        return rng.random() * 10 ** rng.range(-3, 6)
    if k == 9:
        return rng.range(1, 99) + rng.choice([0.00048828125, 0.5, 0.25, 0.125, 0.00000000005, 2.0 ** -34, 2.0 ** -33 * 3])
    if k == 10:
        return struct.unpack(">d", struct.pack(">Q", (rng.u64() & 0x000FFFFFFFFFFFFF) | (rng.range(1000, 1046) << 52)))[0] * rng.choice([1, -1])
    if k == 11:
        return rng.range(-5, 5) + rng.range(0, 10 ** 11) / 1e11
    if k == 12:
        return rng.range(1, 9) * 10.0 ** -rng.range(9, 12)
    return rng.choice([1.5, 2.5, -1.5, -2.5, 0.5, -0.5, 3.5, 1e11 + 0.5])


def smod(a, b):
    if b == 0 or math.isinf(a) or math.isnan(a) or math.isnan(b):
        return float("nan")
    if math.isinf(b):
        return a if (a < 0) == (b < 0) or a == 0 else b
    r = math.fmod(a, b)
    if r != 0 and (r < 0) != (b < 0):
        r += b
    return r


def smod_euclid(a, b):
    """the other double-precision realisation of the same rule (Euclidean remainder, then shift by the
    divisor when it is negative) - what dart-sass itself computes; differs from smod only by rounding"""
    if b == 0 or math.isinf(a) or math.isnan(a) or math.isnan(b) or math.isinf(b):
        return smod(a, b)
    r = math.fmod(a, b)
    if r < 0:
        r += abs(b)
    if b > 0 or r == 0:
        return r
    return r + b


def sdiv(a, b):
    if b == 0:
        if a == 0 or math.isnan(a):
            return float("nan")
        return math.copysign(float("inf"), a) * math.copysign(1, b)
    return a / b


def same(a, b):
    return (math.isnan(a) and math.isnan(b)) or a == b and (a != 0 or math.copysign(1, a) == math.copysign(1, b) or True)


def relclose(a, b, tol):
    if math.isnan(a) or math.isnan(b):
        return math.isnan(a) and math.isnan(b)
    if a == b:
        return True
    return abs(a - b) <= tol * max(1.0, abs(a), abs(b))


def cell(x):
    return math.floor(x * 1e11 + 0.5)


def eq_verdict(a, b):
    """'eq' | 'ne' | 'either'"""
    d = abs(a - b)
    if d > 1e-11 * (1 + 1e-6):
        return "ne"
    if abs(a) < 1e4 and abs(b) < 1e4 and cell(a) == cell(b) and d < 0.999e-11:
        # well inside one grid cell: both known definitions (|a-b| < eps, same cell) say equal
        fa, fb = a * 1e11 + 0.5, b * 1e11 + 0.5
        if min(fa - math.floor(fa), fb - math.floor(fb)) > 1e-3 and max(fa - math.floor(fa), fb - math.floor(fb)) < 1 - 1e-3:
            return "eq"
    if d == 0:
        return "eq"
    return "either"


def expected_text(x, compressed):
    """set of acceptable printed texts for the finite double x"""
    import decimal
    decimal.getcontext().prec = 800
    d = Decimal(x)
    outs = set()
    for mode in (ROUND_HALF_UP, ROUND_HALF_EVEN):
        q = d.quantize(Decimal("1e-10"), rounding=mode)
        s = format(q, "f")
        if "." in s:
            s = s.rstrip("0").rstrip(".")
        if s in ("-0", ""):
            s = "0"
        if s.startswith("-") and set(s[1:]) <= set("0."):
            s = "0"
        if compressed:
            if s.startswith("0."):
                s = s[1:]
            elif s.startswith("-0."):
                s = "-" + s[2:]
        outs.add(s)
    return outs


TEXT_RX_E = re.compile(r"^-?(0|[1-9][0-9]*)(\.[0-9]{1,10})?$")
TEXT_RX_C = re.compile(r"^-?((0|[1-9][0-9]*)(\.[0-9]{1,10})?|\.[0-9]{1,10})$")


def run(sh):
    rng = sh.rng
    n = 0
    while not sh.expired():
        vals = [gen_value(rng) for _ in range(60)]
        vals = [v for v in vals if not math.isinf(v) and not math.isnan(v)]
        # ---- (d) literal parsing + printing, both styles
        lits = [lit(v) for v in vals]
        decls = " ".join("p%d: %s;" % (i, l) for i, l in enumerate(lits))
        emits = "".join("$_: vp-emit(%d, %s);" % (i, l) for i, l in enumerate(lits))
        src = "a { %s %s }" % (decls, emits)
        for style in ("expanded", "compressed"):
            res = sh.w.compile({"text": src, "style": style})
            sh.ev(len(vals))
            if "ok" not in res:
                sh.violation("literal-sheet-fails", "number literals do not compile: %s\n%s" % (str(res)[:200], src[:300]), {"src": src}, {})
                continue
            printed = dict(re.findall(r"p(\d+):\s*([^;}]+)", res["ok"]))
            got = {int(probe.f64(r[0]["bits"])): r[1] for r in res.get("probe", []) if len(r) > 1}
            for i, v in enumerate(vals):
                d = got.get(i)
                if d is None or d.get("t") != "n":
                    sh.violation("literal-not-a-number:" + lits[i], "literal %s evaluated to %s" % (lits[i], d), {"expr": lits[i]}, {})
                    continue
                pv = probe.f64(d["bits"])
                if pv != v and not (pv == 0 and v == 0):
                    sh.violation("literal-parse:" + lits[i], "literal %s parsed to %r (bits %s), nearest double is %r (bits %s)" % (
                        lits[i], pv, d["bits"], v, bits(v)), {"expr": lits[i]}, {"lit": lits[i]})
                    continue
                txt = printed.get(str(i))
                comp = style == "compressed"
                if txt is None:
                    sh.violation("not-printed:" + lits[i], "declaration with %s missing from output" % lits[i], {"expr": lits[i], "style": style}, {})
                    continue
                txt = txt.strip()
                rx = TEXT_RX_C if comp else TEXT_RX_E
                want = expected_text(pv, comp)
                facts = {"value": repr(pv), "bits": d["bits"], "printed": txt, "style": style, "expected": sorted(want)}
                if not rx.match(txt) or txt in ("-0", "-.0") or (("." in txt) and txt.endswith("0")):
                    sh.violation("print-format:%s:%s" % (style, d["bits"]), "%r printed as `%s` in %s mode (bad notation)" % (pv, txt, style), {"expr": lits[i], "style": style}, facts)
                elif txt not in want:
                    sh.violation("print-rounding:%s:%s" % (style, d["bits"]), "%r printed as `%s` in %s mode, correctly rounded 10-digit decimal is %s" % (pv, txt, style, sorted(want)),
                                 {"expr": lits[i], "style": style}, facts)
                elif abs(float(txt if not txt.startswith((".", "-.")) else txt.replace(".", "0.", 1)) - pv) > 0.5e-10 * (1 + 1e-9) + abs(pv) * 1e-15:
                    sh.violation("print-reread:%s:%s" % (style, d["bits"]), "re-reading `%s` does not give a number equal to %r" % (txt, pv), {"expr": lits[i]}, facts)
                else:
                    sh.count("printed_ok_" + style)
                    if pv != int(pv) or abs(pv) > 1000:
                        sh.nontrivial(d["bits"] + style)
        # ---- (d') the same values printed through the other number-to-text routes: interpolation, inspect(),
        # string concatenation, inside lists/maps, with a unit. These texts are SassScript values (read through the
        # probe), so they use the expanded spelling in both output styles.
        ctx_exprs = []
        for l in lits:
            L = "(%s)" % l
            ctx_exprs.append('("#{%s}", inspect(%s), "" + %s, inspect((%s %s)), inspect((k: %s)), "#{%s * 1px}", inspect(%s * 1em), "#{(%s, 1)}")' % (L, L, L, L, L, L, L, L, L))
        style = rng.choice(["expanded", "compressed"])
        got = probe.eval_many(sh.w, ctx_exprs, style=style)
        names = ["interpolation", "inspect", "concatenation", "inspect-of-list", "inspect-of-map", "interpolation-with-unit", "inspect-with-unit", "interpolated-list"]
        shapes = ["%s", "%s", "%s", "%s %s", "(k: %s)", "%spx", "%sem", "%s, 1"]
        for v, l, g in zip(vals, lits, got):
            sh.ev()
            if g[0] != "ok" or g[1].get("t") != "l" or len(g[1]["v"]) != len(names):
                sh.violation("contexts-fail:" + l, "number-to-text expressions for %s do not evaluate: %s" % (l, str(g)[:200]), {"expr": l}, {})
                continue
            want = expected_text(v, False)
            bad = False
            for nm, shp, d in zip(names, shapes, g[1]["v"]):
                txt = d.get("v")
                ok = {shp.replace("%s", w) for w in want}
                if txt not in ok:
                    bad = True
                    sh.violation("print-context:%s:%s" % (nm, bits(v)), "%r printed through %s as `%s` (%s mode); correctly rounded 10-digit text is %s" % (
                        v, nm, txt, style, sorted(ok)), {"expr": l, "style": style, "context": nm}, {"value": repr(v), "context": nm, "printed": txt, "expected": sorted(ok)})
            if not bad:
                sh.count("printed_ok_contexts")
        # ---- (a)+(b) arithmetic and comparison on pairs
        exprs = []
        pairs = []
        for _ in range(80):
            a = rng.choice(vals)
            if rng.chance(0.5):
                b = a + rng.choice([0, 1e-12, -1e-12, 5e-12, -5e-12, 9e-12, 1.1e-11, -1.1e-11, 2e-11, 1e-10, -1e-10, 3e-12, 1e-13])
            else:
                b = rng.choice(vals)
            if math.isinf(b) or math.isnan(b):
                continue
            A, B = lit(a), lit(b)
            pairs.append((a, b))
            exprs.append("(%s, %s, %s + %s, %s - %s, %s * %s, %s %% %s, math.div(%s, %s), -(%s), %s == %s, %s < %s, %s <= %s, %s != %s, %s > %s, %s >= %s)" % (
                A, B, A, B, A, B, A, B, A, B, A, B, A, A, B, A, B, A, B, A, B, A, B, A, B))
        got = probe.eval_many(sh.w, exprs)
        for (a0, b0), e, g in zip(pairs, exprs, got):
            sh.ev()
            if g[0] == "panic":
                sh.violation("panic:" + e[:60], "panic: %s" % g[1], {"expr": e}, {})
                continue
            if g[0] != "ok" or g[1].get("t") != "l" or len(g[1]["v"]) != 14:
                sh.violation("arith-fails:" + e[:80], "arithmetic tuple does not evaluate: %s" % (g,), {"expr": e}, {})
                continue
            v = g[1]["v"]
            try:
                a, b = probe.f64(v[0]["bits"]), probe.f64(v[1]["bits"])
                res = [probe.f64(x["bits"]) for x in v[2:8]]
                bools = [x["v"] for x in v[8:14]]
            except (KeyError, TypeError):
                sh.violation("arith-shape:" + e[:80], "unexpected value kinds: %s" % v, {"expr": e}, {})
                continue
            want = [a + b, a - b, a * b, smod(a, b), sdiv(a, b), -a]
            names = ["+", "-", "*", "%", "math.div", "unary -"]
            bad = False
            for nm, w, r in zip(names, want, res):
                if nm == "%":
                    ok = (relclose(r, w, 1e-11) or relclose(r, smod_euclid(a, b), 1e-11)) and (math.isnan(r) or r == 0 or b == 0 or (r < 0) == (b < 0))
                else:
                    ok = (math.isnan(w) and math.isnan(r)) or r == w
                if not ok:
                    bad = True
                    sh.violation("arith:%s:%s:%s" % (nm, bits(a), bits(b)), "%r %s %r = %r in grass, IEEE/Sass rule gives %r" % (a, nm, b, r, w),
                                 {"expr": e}, {"a": repr(a), "b": repr(b), "op": nm, "got": repr(r), "want": repr(w)})
            verdict = eq_verdict(a, b)
            eqv, lt, le, ne, gt, ge = bools
            probs = []
            if verdict == "eq" and not eqv:
                probs.append("== is false although the values are within tolerance")
            if verdict == "ne" and eqv:
                probs.append("== is true although the values differ by more than 1e-11")
            if ne == eqv:
                probs.append("!= is not the negation of ==")
            if eqv and (lt or gt or not le or not ge):
                probs.append("ordering disagrees with ==: < %s > %s <= %s >= %s" % (lt, gt, le, ge))
            if not eqv and ((lt != (a < b)) or (gt != (a > b)) or (le != (a < b)) or (ge != (a > b))):
                probs.append("ordering wrong for unequal values: < %s > %s <= %s >= %s" % (lt, gt, le, ge))
            for p in probs:
                bad = True
                sh.violation("compare:%s:%s:%s" % (p[:20], bits(a), bits(b)), "%r vs %r (|diff|=%r): %s" % (a, b, abs(a - b), p), {"expr": e},
                             {"a": repr(a), "b": repr(b), "problem": p})
            if not bad:
                sh.count("pairs_agree")
                sh.nontrivial(bits(a) + bits(b))
        # ---- rounding functions and integer acceptance
        exprs, xs = [], []
        for _ in range(40):
            x = rng.range(-30, 30) + rng.choice([0, 0.5, -0.5, 1e-12, -1e-12, 1e-11, -1e-11, 2e-11, -2e-11, 1e-9, -1e-9, 0.3, 0.7, 0.49999999999, 0.50000000001])
            xs.append(x)
            X = lit(x)
            exprs.append("(%s, round(%s), ceil(%s), floor(%s), abs(%s), math.round(%s))" % (X, X, X, X, X, X))
        got = probe.eval_many(sh.w, exprs)
        for e, g in zip(exprs, got):
            sh.ev()
            if g[0] != "ok":
                sh.violation("rounding-fails:" + e[:60], str(g)[:200], {"expr": e}, {})
                continue
            x, rd, ce, fl, ab, rd2 = (probe.f64(v["bits"]) for v in g[1]["v"])
            k = math.floor(x + 0.5)
            near = abs(x - round(x)) <= 1e-11 * 1.000001
            half = abs(abs(x - math.floor(x)) - 0.5) <= 1e-11 * 1.000001
            ok_round = {float(k)} if not half else {float(math.floor(x)), float(math.floor(x)) + 1}
            if x < 0 and not half:
                ok_round = {float(math.floor(x + 0.5)), float(-math.floor(-x + 0.5))}
            ok_ceil = {float(math.ceil(x))} | ({float(round(x))} if near else set())
            ok_floor = {float(math.floor(x))} | ({float(round(x))} if near else set())
            probs = []
            if rd not in ok_round or rd2 != rd:
                probs.append("round = %r/%r, acceptable %s" % (rd, rd2, sorted(ok_round)))
            if ce not in ok_ceil:
                probs.append("ceil = %r, acceptable %s" % (ce, sorted(ok_ceil)))
            if fl not in ok_floor:
                probs.append("floor = %r, acceptable %s" % (fl, sorted(ok_floor)))
            if ab != abs(x):
                probs.append("abs = %r" % ab)
            for p in probs:
                sh.violation("rounding:%s:%s" % (p[:5], bits(x)), "x = %r: %s" % (x, p), {"expr": e}, {"x": repr(x), "problem": p})
            if not probs:
                sh.count("rounding_agree")
        # integer acceptance: nth index / @for bound
        specs, metas = [], []
        for _ in range(24):
            kk = rng.range(1, 3)
            d = rng.choice([0, 1e-12, -1e-12, 5e-12, 2e-11, -2e-11, 1e-9, 1e-3, -1e-3, 0.5])
            idx = kk + d
            if rng.chance(0.5):
                specs.append({"text": "a { b: nth(x y z, %s); }" % lit(idx)})
                metas.append(("nth", idx, "xyz"[kk - 1]))
            else:
                specs.append({"text": "a { @for $i from 1 through %s { b: $i; } }" % lit(idx)})
                metas.append(("for", idx, kk))
        for s, m, r in zip(specs, metas, sh.w.batch(specs)):
            sh.ev()
            idx = m[1]
            dist = abs(idx - round(idx))
            accepted = "ok" in r
            if dist > 1e-11 * 1.000001 and accepted:
                sh.violation("non-integer-accepted:%s:%s" % (m[0], bits(idx)), "%s accepted the non-integer %r: %s" % (m[0], idx, r.get("ok")), {"spec": s}, {"x": repr(idx)})
            elif dist < 0.9e-11 and abs(idx * 1e11 + 0.5 - math.floor(idx * 1e11 + 0.5) - 0.5) < 0.49 and not accepted and dist > 0:
                sh.violation("fuzzy-integer-rejected:%s:%s" % (m[0], bits(idx)), "%s rejected %r which is within 1e-11 of an integer: %s" % (m[0], idx, str(r)[:200]), {"spec": s}, {"x": repr(idx)})
            elif accepted:
                out = r["ok"]
                if m[0] == "nth" and ("b: %s;" % m[2]) not in out:
                    sh.violation("nth-wrong-element:" + bits(idx), "nth(x y z, %r) -> %s" % (idx, out), {"spec": s}, {})
                elif m[0] == "for" and out.count("b:") != m[2]:
                    sh.violation("for-wrong-count:" + bits(idx), "@for 1 through %r ran %d times" % (idx, out.count("b:")), {"spec": s}, {})
                else:
                    sh.count("integer_checks_agree")
            else:
                sh.count("integer_checks_agree")
        # ---- (c) sass:math
        exprs, wants = [], []
        for _ in range(40):
            x = rng.choice([0, 0.5, 1, 2, 10, 0.1, 1e-5, 123.456, -0.5, -1, -2, 1e6, 0.25, 3, 1.0000000001, 0.9999999999, -1.0000000001,
                            1.5, 1e-300, 1e300, 7, 0.999, -0.999])
            y = rng.choice([0, 0.5, 1, 2, 3, -1, -2, 10, 2147483647, 2147483648, 2147483649, 4294967296, 4294967297, -2147483648, -2147483649,
                            1e10, 1e18, 3e9, 1e15 + 1, 0.001, 1e-10, 63, 64, 1023, 1024, -1074])
            if rng.chance(0.15):
                x = gen_value(rng)
            if rng.chance(0.15):
                y = gen_value(rng)
            if math.isnan(x) or math.isinf(x) or math.isnan(y) or math.isinf(y):
                continue
            fn = rng.choice(["sqrt", "sin", "cos", "tan", "asin", "acos", "atan", "atan2", "pow", "log", "hypot", "sin-deg", "log2"])
            def snap(v):
                # Sass treats numbers within 1e-11 of each other as the same number: a built-in may legitimately
                # evaluate at the snapped operand (acos(1.000000000001) = acos(1)), so both answers are accepted
                r = float(round(v))
                return r if v != r and abs(v - r) <= 1e-11 else v

            def real(fn, x, y):
                if fn == "sqrt":
                    return "math.sqrt(%s)" % lit(x), (math.sqrt(x) if x >= 0 else float("nan"), "")
                if fn == "sin":
                    return "math.sin(%s)" % lit(x), (math.sin(x), "")
                if fn == "cos":
                    return "math.cos(%s)" % lit(x), (math.cos(x), "")
                if fn == "tan":
                    return "math.tan(%s)" % lit(x), (math.tan(x), "")
                if fn == "sin-deg":
                    return "math.sin(%sdeg)" % lit(x), (math.sin(math.radians(x)), "")
                if fn == "asin":
                    return "math.asin(%s)" % lit(x), (math.degrees(math.asin(x)) if -1 <= x <= 1 else float("nan"), "deg")
                if fn == "acos":
                    return "math.acos(%s)" % lit(x), (math.degrees(math.acos(x)) if -1 <= x <= 1 else float("nan"), "deg")
                if fn == "atan":
                    return "math.atan(%s)" % lit(x), (math.degrees(math.atan(x)), "deg")
                if fn == "atan2":
                    return "math.atan2(%s, %s)" % (lit(y), lit(x)), (math.degrees(math.atan2(y, x)), "deg")
                if fn == "pow":
                    if (x < 0 and y != int(y)) or (x == 0 and y < 0):
                        return None
                    return "math.pow(%s, %s)" % (lit(x), lit(y)), (math.pow(x, y), "")
                if fn == "log":
                    if x <= 0:
                        return None
                    return "math.log(%s)" % lit(x), (math.log(x), "")
                if fn == "log2":
                    # bases within the equality tolerance of 0 or 1 are outside the function's domain
                    if x <= 0 or y <= 1e-11 or abs(y - 1) <= 1e-11:
                        return None
                    return "math.log(%s, %s)" % (lit(x), lit(y)), (math.log(x) / math.log(y), "")
                return "math.hypot(%s, %s)" % (lit(x), lit(y)), (math.hypot(x, y), "")
            try:
                r0 = real(fn, x, y)
                if r0 is None:
                    continue
                e, w = r0
                alts = [w]
                for xs, ys in ((snap(x), y), (x, snap(y)), (snap(x), snap(y))):
                    if (xs, ys) != (x, y):
                        try:
                            ra = real(fn, xs, ys)
                            if ra is not None:
                                alts.append(ra[1])
                        except (ValueError, OverflowError, ZeroDivisionError):
                            pass
                w = (w[0], w[1], [a[0] for a in alts])
            except (ValueError, OverflowError, ZeroDivisionError):
                continue
            exprs.append(e)
            wants.append(w)
        got = probe.eval_many(sh.w, exprs)
        for e, w, g in zip(exprs, wants, got):
            sh.ev()
            if g[0] == "panic":
                sh.violation("panic:" + e, "panic: %s" % g[1], {"expr": e}, {})
                continue
            if g[0] != "ok" or g[1].get("t") != "n":
                sh.violation("math-fails:" + e, "`%s` -> %s" % (e, g), {"expr": e}, {})
                continue
            val, nu, du = probe.num(g[1])
            unit_ok = (list(nu) == ([w[1]] if w[1] else [])) and not du
            tol_ok = any(relclose(val, a, 1e-9) or (abs(a) < 1e-9 and abs(val) < 1e-9) or (abs(a) > 1e15 and abs(val) > 1e15) for a in w[2])
            if not unit_ok or not tol_ok:
                sh.violation("math:" + e, "`%s` = %r%s, real-valued function gives %r%s" % (e, val, "".join(nu), w[0], w[1]), {"expr": e}, {"got": repr(val), "want": repr(w[0])})
            else:
                sh.count("math_functions_agree")
                sh.nontrivial(e)
        if n < 2:
            sh.sample({"literal": lits[0], "value_bits": bits(vals[0]), "expected_expanded_text": sorted(expected_text(vals[0], False))})
            n += 1


def replay(sh, payload):
    r = payload["replay"]
    if "expr" in r:
        print(r["expr"][:300], "->", probe.eval_many(sh.w, [r["expr"]]))
        if "style" in r:
            print(sh.w.compile({"text": "a { b: %s; }" % r["expr"], "style": r["style"]}))
    if "spec" in r:
        print(sh.w.compile(r["spec"]))
    return "see output"
