"""C04 — nesting, `&`, @at-root and bubbling at-rules flatten to equivalent flat CSS.
Oracle: vp/model/flatten.py (reference flattener written from the reference semantics); the ordered list of
(at-rule context, selector, declarations) read from grass's output by the independent CSS reader must equal the
list the flattener produces."""
import json

from .. import cssread
from ..gen import ast, ruletree
from ..model import flatten as F

ID = "C04"
RULE = ("random rule trees: depth <= 4, width <= 3, selector lists with `&` alone, as suffix (&-s, &.t, &:hover), repeated "
        "(& + &), inside a complex selector (.x &, & > y), as the argument of :not()/:is()/:where(), with pseudo-element / attribute / :not() suffixes, leading combinators, declarations before and after nested "
        "rules and bubbling at-rules, nested properties, @media (mergeable and unmergeable nestings), @supports, unknown "
        "at-rules, @at-root with every with/without query and in its selector form; printed as SCSS and indented, both styles sampled. "
        "non-trivial = >= 2 nesting levels and >= 2 output blocks; distinct = distinct source texts.")
ASSUMPTIONS = ["trees outside the reference flattener's fragment (Unsupported) are inconclusive",
               "blocks are compared in order after dropping declaration-less blocks; selectors/queries compared in canonical spelling"]


def plan(tier):
    return {"budget_s": 50 if tier == "quick" else 500, "profiles": ["R"], "min_evaluations": 1000,
            "max_evaluations": 60000 if tier == "quick" else None}


def canon_blocks(bl):
    out = []
    for ctx, sel, decls in bl:
        if not decls:
            continue
        out.append([[canon_head(c) for c in ctx], canon_head(sel), [[p, v] for p, v in decls]])
    return out


def canon_head(h):
    try:
        toks = cssread.tokenize(h)
    except cssread.CssError:
        return h
    if h.startswith("@"):
        return cssread._canon_join(toks, colors=False).replace(", ", ",")
    return cssread.canon_selector(toks)


def depth_of(stmts):
    d = 0
    for s in stmts:
        b = s.a.get("body")
        if b:
            d = max(d, 1 + depth_of(b))
    return d


def run(sh):
    rng = sh.rng
    n = 0
    while not sh.expired():
        cases = []
        for _ in range(40):
            t = ruletree.tree(rng)
            try:
                want = canon_blocks(F.flatten(t))
            except F.Unsupported as e:
                sh.inconc("model-unsupported:" + str(e)[:30])
                continue
            cases.append((t, want))
        specs, meta = [], []
        for t, want in cases:
            style = rng.choice(["expanded", "compressed"])
            for syn, text in (("scss", ast.to_scss(t)), ("sass", ast.to_sass(t))):
                specs.append({"text": text, "syntax": syn, "style": style})
                meta.append((t, want, text, syn, style))
        rs = sh.w.batch(specs)
        for (t, want, text, syn, style), r in zip(meta, rs):
            if judge(sh, t, want, text, syn, style, r):
                sh.count("agree")
                if depth_of(t) >= 2 and len(want) >= 2:
                    sh.nontrivial(text)
                if n < 2 and len(want) >= 3:
                    sh.sample({"source": text[:700], "model_blocks": want[:6]})
                    n += 1


def judge(sh, t, want, text, syn, style, r):
    from ..core import h64, pack
    sh.ev()
    h = "%016x" % h64(text)
    rp = {"text": text, "syntax": syn, "style": style, "case": pack(t)}
    facts = {"source": text, "syntax": syn, "style": style, "model": want}
    if "panic" in r:
        sh.violation("panic:" + h, "panic: %s\n%s" % (r["panic"], text[:600]), rp, facts)
        return False
    if "timeout" in r or "died" in r:
        sh.inconc("watchdog-or-death")
        return False
    if "ok" not in r:
        sh.violation("rejected:" + h, "valid rule tree rejected: %s\n%s" % ((r.get("err") or {}).get("msg"), text[:800]), rp, dict(facts, error=(r.get("err") or {}).get("msg")))
        return False
    try:
        got = canon_blocks(cssread.read(r["ok"])[0])
    except cssread.CssError as e:
        sh.violation("malformed:" + h, "output unreadable: %s" % e, rp, facts)
        return False
    if got != want:
        i = 0
        while i < min(len(got), len(want)) and got[i] == want[i]:
            i += 1
        sh.violation("flatten:" + h, "flattened output differs from the reference flattener at block #%d\nmodel: %s\ngrass: %s\n%s" % (
            i, json.dumps(want[i:i + 2]), json.dumps(got[i:i + 2]), text[:1500]), rp, dict(facts, grass=got))
        return False
    return True


def replay(sh, payload):
    from ..core import unpack, rejudge
    r = payload["replay"]
    t = unpack(r["case"])
    want = canon_blocks(F.flatten(t))
    text = ast.to_scss(t) if r["syntax"] == "scss" else ast.to_sass(t)
    res = sh.w.compile({"text": text, "syntax": r["syntax"], "style": r["style"]})
    print(text)
    print("grass:", res.get("ok") or res)
    print("model blocks:", json.dumps(want))
    return rejudge(sh, lambda: judge(sh, t, want, text, r["syntax"], r["style"], res))
