"""C02 — a result is a pure function of (source, options, visible files).
Oracle: byte equality with the result of the same request executed alone on a fresh thread of a fresh
process; monitored under (h) arbitrary single-thread histories incl. adversarial interner pre-loads,
(r) repetition, (p) fresh processes (fresh hash seeds), (s) concurrent threads; plus the unique-id()
monitor. Thorough: ThreadSanitizer and Miri on the threaded workload."""
import json
import os
import re
import subprocess
import tempfile
import time

from .. import build, corpus, worker
from ..rng import Rng

ID = "C02"
RULE = ("program X (corpus item, generated order-exposing program or multi-file project; random()/unique-id() "
        "excluded) is compiled alone on a fresh thread (reference) and then (h) as the last element of a "
        "single-thread history [P1..Pk, X] of corpus/failing/other-style compilations or an adversarial interner "
        "pre-load that interns X's identifiers in reverse-sorted order, (r) repeated, (p) in fresh processes, "
        "(s) on 2..16 concurrent threads; results must be byte-identical. non-trivial = X is non-empty and the "
        "history/schedule contains at least one other compilation; distinct = distinct (mode, history-hash, X).")
ASSUMPTIONS = [
    "histories are at most 60 compilations long; schedules are sampled (OS scheduler natively, seeded schedules under Miri), not enumerated",
    "wrap-around of the u32 selector id counter (2^32 selectors in one process) is not driven",
]


def plan(tier):
    if tier == "quick":
        return {"budget_s": 70, "profiles": ["R"], "min_evaluations": 300}
    return {"budget_s": 600, "profiles": ["R", "D", "tsan"], "min_evaluations": 300}


MODFILES = {
    "/p/_m.scss": "$zeta: 1; $alpha: 2; $mid: 3; $beta: 4; $omega: 5; $gamma: 6;\n"
                  "@function zf() {@return 1} @function af() {@return 2} @function mf() {@return 3}\n"
                  "@mixin zm {z: 1} @mixin am {a: 1}\n",
    "/p/_n.scss": "$yy: 1; $bb: 2; $xx: 3; $aa: 4;\n@function yf() {@return 1} @function bf() {@return 2}\n",
    "/p/_fw.scss": '@forward "m"; @forward "n" as n-*;\n',
    "/p/_fw2.scss": '@forward "n"; @forward "m";\n$own: 9; $aaa: 8;\n',
}

# the same module names in the importing directory and in two load paths: which file a URL resolves to depends on the
# files that exist and on the load-path order of *this* compilation only
LAYERED = {
    "/p/_m.scss": "$zeta: p-m; @function zf() {@return p}\n", "/l1/_m.scss": "$zeta: l1-m; @function zf() {@return l1}\n",
    "/l2/_m.scss": "$zeta: l2-m; @function zf() {@return l2}\n", "/l1/_n.scss": "$yy: l1-n;\n", "/l2/n.scss": "$yy: l2-n;\n",
    "/l2/_o.scss": "$oo: l2-o;\n", "/p/sub/_m.scss": "$zeta: sub-m; @function zf() {@return sub}\n",
    "/p/sub/_q.scss": '@use "m"; $qq: m.$zeta;\n', "/l1/_q2.scss": '@use "m"; $qq: m.$zeta;\n',
}
LAYERED_MAINS = [
    '@use "m"; @use "n"; @use "o"; a { b: m.$zeta n.$yy o.$oo m.zf(); }',
    '@import "m"; @import "n"; a { b: $zeta $yy zf(); }',
    '@use "sub/q"; @use "q2"; @use "m"; a { b: q.$qq q2.$qq m.$zeta; }',
    '@forward "m"; @use "sass:meta"; a { @include meta.load-css("n"); }',
]

TARGETED = [
    "@function f($args...) { @return inspect(keywords($args)); } a { b: f($zz: 1, $aa: 2, $mm: 3, $bb: 4); }",
    "@function f($args...) { @return map-keys(keywords($args)); } a { b: f($zeta: 1, $alpha: 2, $omega: 3); }",
    "@mixin m($args...) { @each $k, $v in keywords($args) { #{$k}: $v; } } a { @include m($zz: 1, $aa: 2, $yy: 3, $bb: 4); }",
    "@function f($a) { @return $a; } a { b: f($zz: 1, $aa: 2); }",
    "@function f($a) { @return $a; } a { b: f(1, $zz: 1, $aa: 2, $mm: 3); }",
    "@mixin m($a) { x: $a; } a { @include m($a: 1, $zz: 1, $bb: 2); }",
    "@mixin m($a, $b) { x: $a; } a { @include m($zz: 1, $bb: 2); }",
    "@function f($zz, $aa, $mm) { @return 1; } a { b: f(); }",
    "@function f($zz, $aa) { @return 1; } a { b: f($qq: 1, $cc: 2); }",
    "a { b: rgb($zz: 1, $aa: 2, $red: 3); }",
    "a { b: map-get($zz: 1, $aa: 2); }",
    "a { b: inspect((zz: 1, aa: 2, mm: (yy: 1, bb: 2))); c: map-keys((zz: 1, aa: 2)); d: map-values(map-merge((zz: 1), (aa: 2, zz: 3))); }",
    '@use "sass:meta"; @use "m"; a { b: inspect(meta.module-variables("m")); }',
    '@use "sass:meta"; @use "m"; a { b: inspect(meta.module-functions("m")); }',
    '@use "sass:meta"; @use "sass:map"; @use "m"; a { b: map.keys(meta.module-variables("m")); }',
    '@use "sass:meta"; @use "fw"; a { b: inspect(meta.module-variables("fw")); c: map-keys(meta.module-functions("fw")); }',
    '@use "sass:meta"; @use "fw2"; a { b: inspect(meta.module-variables("fw2")); }',
    '@use "sass:meta"; @use "sass:math"; a { b: inspect(meta.module-variables("math")); c: map-keys(meta.module-functions("math")); }',
    '@use "sass:meta"; @use "sass:map"; @function f($args...) { @return map.keys(meta.keywords($args)); } a { b: f($zz: 1, $aa: 2, $kk: 3); }',
    '@use "m" as *; @use "n" as *; a { b: $zeta $alpha $yy $aa; }',
    '@use "m" with ($zeta: 1); a { b: m.$zeta; }',
    '@use "fw" with ($zz-not: 1, $aa-not: 2); a { b: c; }',
    # files reached by path: anything remembered per path across compilations (parsed files, resolved URLs, module
    # instances) shows when an earlier compilation saw other contents under the same paths (stale-files histories)
    '@import "m"; @import "n"; a { b: $zeta $alpha $yy zf() bf(); @include zm; }',
    '@use "sass:meta"; a { @include meta.load-css("m"); } @use "n"; b { c: n.$yy n.yf(); }',
    '@use "m"; @use "fw2"; a { b: m.$zeta fw2.$own fw2.$yy m.af(); @include m.am; }',
    ".zz {x: y} .aa {@extend .zz} .mm {@extend .zz} .bb {@extend .zz} .yy {@extend .zz} .cc {@extend .zz; @extend .aa}",
    "%p {x: y} .zz, .aa {@extend %p} .mm .nn {@extend %p} a:not(%p) {z: w} .qq {@extend .mm}",
    ".a .zz, .b .aa {x: y} .c .d {@extend .zz; @extend .aa} .e {@extend .d} .f {@extend .c}",
    "@media screen { .zz {x: y} .aa {@extend .zz} .bb {@extend .zz} } .cc { @extend .dd !optional }",
    "a { b: selector-extend('.zz .aa, .bb', '.aa', '.cc, .dd, .ee'); c: selector-unify('.zz.aa', '.bb.cc'); }",
    "@function zz() {@return 1} @function aa() {@return 2} a { b: inspect(get-function(zz)) inspect(get-function(aa)); c: call(get-function(aa)); }",
    "$zz: 1; $aa: 2; @mixin mm {x: $zz + $aa} @mixin bb {@include mm} a {@include bb; c: variable-exists(zz) mixin-exists(mm)}",
    "a { @each $k, $v in (zz: 1, aa: 2, mm: 3) { #{$k}: $v; } @each $x in zz aa mm bb { x-#{$x}: 1; } }",
    "a { b: change-color(red, $zz: 1, $aa: 2); }",
    "a { b: adjust-color(red, $zz: 1, $hue: 2, $aa: 3); }",
    "@function f($a, $args...) {@return $a} a { b: f($zz: 1, $aa: 2); }",
    "@mixin m($args...) { x: length($args); } a { @include m($zz: 1, $aa: 2); }",
    # selectors that are structurally equal but spelled differently (escapes): containers keyed by selector identity
    # vs. structure show up as process-dependent output
    ".foo {a: b} \\.foo {c: d} \\2E foo {e: f} .bar {@extend \\02e foo}",
    ".a\\62 {x: y} .ab {z: w} .c {@extend .ab} .d {@extend .a\\62 }",
    ".zz, .\\7a z {x: y} .aa {@extend .zz} .mm {@extend .\\7a z} .nn {@extend .z\\7a }",
    # names whose `_` and `-` spellings must stay interchangeable (and strings where they must stay distinct), whatever
    # raw spellings earlier compilations on the thread have interned
    "@function grid-gap($x) { @return $x * 2; } a { b: grid_gap(2px); c: grid-gap(1px); d: function-exists(\"grid_gap\"); }",
    "$_width: 10px; a { b: variable-exists(\"_width\") variable-exists(\"-width\") global-variable-exists(\"_width\"); c: $-width; }",
    "@mixin m($my-unit) { c: $my-unit; } a { @include m((my_unit: 3)...); } b { @include m((my-unit: 4)...); }",
    "@mixin foo_bar { x: y } a { @include foo-bar; b: mixin-exists(\"foo_bar\") mixin-exists(\"foo-bar\"); }",
    "@function f($a_b) { @return $a-b; } a { b: f($a-b: 1) f($a_b: 2); c: call(get-function(\"f\"), $a_b: 3); d: inspect(get-function(\"f\")); }",
    "a { b: map-get((a_b: 1, a-b: 2), a_b) map-get((a_b: 1), a-b); c: index(a_b a-b, a-b); d: a_b == a-b; e: \"x_y\" == \"x-y\"; }",
    "@function -priv_fn() { @return 1; } a { b: -priv-fn() _priv_fn(); c: function-exists(\"_priv-fn\"); }",
    # long-running victims for the concurrent stratum: hundreds of @extend rounds whose trimming relies on per-selector
    # identities, so that other threads start and finish many compilations while one of these is in flight
    "@for $i from 1 through 70 { .f#{$i}.g#{$i} { x: $i } .h#{$i} { @extend .f#{$i}; @extend .g#{$i}; } }",
    "%base { x: y } @for $i from 1 through 50 { .zz#{$i} { @extend %base; @extend .zz#{$i - 1} !optional; } .q .zz#{$i}.w { p: $i } }",
    ".s.t, .u .v {x: y} @for $i from 1 through 60 { .w#{$i} { @extend .s; @extend .t; @extend .v; } .k#{$i} .s { z: $i } }",
]

IDENT_RX = re.compile(r"[A-Za-z_][A-Za-z0-9_-]*")


def key(res):
    if not isinstance(res, dict):
        return ("bad", str(res))
    if "ok" in res:
        return ("ok", res["ok"])
    if "ok_hex" in res:
        return ("okhex", res["ok_hex"])
    if "err" in res:
        e = res["err"]
        return ("err", e.get("kind"), json.dumps(e.get("disp"), sort_keys=True))
    if "panic" in res:
        return ("panic", res["panic"].get("msg", "")[:80])
    if "died" in res:
        return ("died", res["died"])
    if "timeout" in res:
        return ("timeout",)
    return ("other", json.dumps(res, sort_keys=True)[:200])


def usable(text):
    return "random(" not in text and "unique-id" not in text and "unique_id" not in text


def preload(text, files, how):
    ids = set(IDENT_RX.findall(text))
    for v in (files or {}).values():
        if isinstance(v, str):
            ids |= set(IDENT_RX.findall(v))
    ids = sorted(i for i in ids if len(i) < 40)
    if how == "reverse":
        ids = ids[::-1]
    elif how == "shuffled":
        Rng(len(ids), text).shuffle(ids)
    if how == "raw":
        # intern the *raw* spellings (underscore and hyphen variants) through the routes that do not normalise names:
        # property names, unit names, string contents, selectors
        both = sorted({v for i in ids for v in (i, i.replace("-", "_"), i.replace("_", "-"))})
        body = "vp-raw {\n" + "".join("  %s: 0;\n  x: 1%s \"%s\" %s;\n" % (i, i, i, i) for i in both if not i[0].isdigit()) + "}\n"
        body += "".join(".%s { y: z; }\n" % i for i in both[:40] if not i[0].isdigit() and not i.startswith("-"))
        return {"text": body, "syntax": "scss"}
    body = "".join("$%s: 0;\n" % i for i in ids)
    body += "@function vp-pre(%s) { @return 0; }\n" % ", ".join("$" + i for i in ids[:40])
    return {"text": body, "syntax": "scss"}


def programs(sh):
    out = []
    for it in corpus.items():
        if usable(it["input"]) and not it["ignored"]:
            s = dict(it["spec"])
            s["text"] = it["input"]
            out.append(s)
    for t in TARGETED:
        if '@use "m"' in t or '@use "fw' in t or '@use "n"' in t or '@import "m"' in t or 'load-css("m")' in t:
            files = dict(MODFILES)
            files["/p/main.scss"] = t
            out.append({"entry": "/p/main.scss", "files": files, "_targeted": True})
        else:
            out.append({"text": t, "_targeted": True})
    for t in LAYERED_MAINS:
        files = dict(LAYERED)
        files["/p/main.scss"] = t
        out.append({"entry": "/p/main.scss", "files": files, "load_paths": ["/l1", "/l2"], "_targeted": True, "_layered": True})
        files = dict(files)
        del files["/p/_m.scss"]
        out.append({"entry": "/p/main.scss", "files": files, "load_paths": ["/l2", "/l1"], "_targeted": True, "_layered": True})
    # generated programs (the C03 generator), in both syntaxes
    from ..gen import ast, program
    g = Rng(sh.seed, "C02-programs", sh.shard)
    for _ in range(120):
        prog = program.program(g, g.range(10, 30))
        if g.chance(0.5):
            out.append({"text": ast.to_scss(prog), "syntax": "scss", "_generated": True})
        else:
            out.append({"text": ast.to_sass(prog), "syntax": "sass", "_generated": True})
    return out


def stale(x, rng):
    """the same request with other contents under the same paths / the same entry name: every number changed, a rule
    appended, (sometimes) a file emptied. Compiling it first must not influence the result of x."""
    def mut(t):
        if not isinstance(t, str):
            return t
        k = rng.below(6)
        if k == 0:
            return ".stale { from: stale; }\n"
        t2 = re.sub(r"(?<![\w#.$-])(\d+)(?![\w.])", lambda m: str(int(m.group(1)) + 7), t)
        return t2 + "\n.stale { from: stale; }\n$stale-var: 1;\n"
    y = clean(x)
    if y.get("files"):
        how = rng.below(3)
        if how != 1:
            y["files"] = {p: (mut(c) if (p != y.get("entry") or rng.chance(0.5)) else c) for p, c in y["files"].items()}
        if how != 0:
            # another layout: some of the other files do not exist, the load paths come in another order / are fewer
            y["files"] = {p: c for p, c in y["files"].items() if p == y.get("entry") or rng.chance(0.6)}
            lp = list(y.get("load_paths") or [])
            rng.shuffle(lp)
            y["load_paths"] = lp[:rng.range(0, len(lp))] if lp and rng.chance(0.5) else lp
    if y.get("text") is not None:
        y["text"] = mut(y["text"])
    return y


def other_options(x, rng):
    y = clean(x)
    for _ in range(rng.range(1, 3)):
        k = rng.below(5)
        if k == 0:
            y["quiet"] = not y.get("quiet", False)
        elif k == 1:
            y["unicode"] = not y.get("unicode", True)
        elif k == 2:
            y["charset"] = not y.get("charset", True)
        elif k == 3:
            y["syntax"] = rng.choice(["scss", "sass", "css"])
        else:
            y["load_paths"] = ["/p/other", "/p"]
    return y


def clean(s):
    return {k: v for k, v in s.items() if not k.startswith("_")}


def report(sh, mode, x, ref, got, history=None, extra=None):
    text = x.get("text") or (x.get("files") or {}).get(x.get("entry"), "")
    facts = {"mode": mode, "program": text, "reference": list(ref), "observed": list(got),
             "reference_head": _head(ref), "observed_head": _head(got)}
    if extra:
        facts.update(extra)
    sig = "nondeterminism:%s:%s" % (mode, _short(text))
    sh.violation(sig, "same request, different result (%s)\nprogram: %s\nreference: %s\nobserved:  %s" % (
        mode, text[:300], str(ref)[:300], str(got)[:300]),
        {"mode": mode, "x": clean(x), "history": history, "extra": extra}, facts)


def _head(k):
    """kind + first line of the result text (for an error: its message)"""
    t = k[-1] if isinstance(k[-1], str) else ""
    if k[0] == "err":
        try:
            t = json.loads(t)
        except ValueError:
            pass
    return [k[0], str(t).split("\n")[0]]


def _short(text):
    from ..core import h64
    return "%016x" % h64(text)


def run(sh):
    rng = sh.rng
    progs = programs(sh)
    targeted = [p for p in progs if p.get("_targeted")]
    general = [p for p in progs if not p.get("_targeted")]
    w = sh.w
    # failing / panicking prefix material
    bad = [{"text": t} for t in ("a{b:", "@include nope;", "a{b:1px+1s}", "@error zz aa;", "@use 'missing';",
                                 "a{b:f(", "$a: (a:1,a:2);", "@function f(){@return f()} a{b:f()}")]
    refs = {}

    def ref_of(x):
        k = json.dumps(clean(x), sort_keys=True)
        if k not in refs:
            r = w.batch([clean(x)], fresh=True)[0]
            refs[k] = key(r)
            # reference must itself be stable on a second fresh thread
            r2 = w.batch([clean(x)], fresh=True)[0]
            sh.ev(2)
            if key(r2) != refs[k]:
                report(sh, "fresh-thread-repeat", x, refs[k], key(r2))
        return refs[k]

    # unique-id monitor
    uid_prog = ("@use 'sass:string'; @function g() {@return unique-id()} a { $l: ();"
                " @for $i from 1 through 40 { $l: append($l, if($i % 2 == 0, unique-id(), string.unique-id())); $l: append($l, g()); }"
                " b: vp-emit($l...); c: unique-id(); }")
    for rep in range(3 if sh.tier == "quick" else 20):
        r = w.compile({"text": uid_prog})
        sh.ev()
        ids = [v["v"] for v in (r.get("probe") or [[]])[0] if v.get("t") == "s"]
        css_id = re.search(r"c: ([^;]+);", r.get("ok") or "")
        if css_id:
            ids.append(css_id.group(1))
        sh.count("unique_ids_observed", len(ids))
        if len(ids) != 81 or len(set(ids)) != len(ids) or not all(re.fullmatch(r"[a-zA-Z_][a-zA-Z0-9_-]*", i) for i in ids):
            sh.violation("unique-id", "unique-id() results not distinct valid identifiers: %s" % ids[:10],
                         {"mode": "unique-id", "x": {"text": uid_prog}}, {"ids": ids[:100]})
        else:
            sh.nontrivial(["uid", rep, sh.shard])

    # fixed family: every targeted program once behind each adversarial interner pre-load (spread over the shards)
    fam = [(x, how) for x in targeted for how in ("reverse", "raw")]
    for k, (x, how) in enumerate(fam):
        if k % sh.nshards != sh.shard:
            continue
        hist = [preload(x.get("text") or "", x.get("files"), how)]
        rs = w.history(hist + [clean(x)])
        sh.ev(2)
        sh.count("history_runs")
        sh.count("history_fixed-family:" + how)
        if isinstance(rs, dict):
            sh.inconc("history-request-failed:" + ",".join(sorted(rs.keys())))
            continue
        from ..core import h64
        sh.nontrivial(["fixed-family", how, json.dumps(clean(x), sort_keys=True)])
        if key(rs[-1]) != ref_of(x):
            report(sh, "history:interner-preload", x, ref_of(x), key(rs[-1]), history=hist)

    sfam = [x for x in targeted if x.get("files")]
    sfam = sfam + [x for x in sfam if x.get("_layered")] * 3      # (layouts are drawn at random: several draws each)
    for k, x in enumerate(sfam):
        if k % sh.nshards != sh.shard:
            continue
        hist = [stale(x, rng), stale(x, rng)]
        rs = w.history(hist + [clean(x)])
        sh.ev(3)
        sh.count("history_runs")
        sh.count("history_fixed-family:stale-files")
        if isinstance(rs, dict):
            sh.inconc("history-request-failed:" + ",".join(sorted(rs.keys())))
            continue
        sh.nontrivial(["fixed-family", "stale", json.dumps(clean(x), sort_keys=True)])
        if key(rs[-1]) != ref_of(x):
            report(sh, "history:stale-files", x, ref_of(x), key(rs[-1]), history=hist)

    round_ = 0
    procs_done = 0
    while not sh.expired():
        round_ += 1
        mode = round_ % 8
        if mode in (0, 1, 2, 3, 4):
            # (h)/(r): single-thread histories
            x = rng.choice(targeted) if rng.chance(0.5) else rng.choice(general)
            ref = ref_of(x)
            hk = rng.below(9)
            if hk == 6 or (hk == 8 and x.get("files")):
                hist = [stale(x, rng) for _ in range(rng.range(1, 3))]
                if rng.chance(0.3):
                    hist.append(clean(rng.choice(general)))
                hname = "stale-files"
            elif hk >= 7:
                hist = [other_options(x, rng) for _ in range(rng.range(1, 3))]
                hname = "other-options-prefix"
            elif hk == 0:
                hist = [clean(rng.choice(general)) for _ in range(rng.range(1, 40))]
                hname = "corpus-prefix"
            elif hk == 1:
                hist = [clean(x)] * rng.range(1, 4)
                hname = "repetition"
            elif hk == 2:
                hist = [preload(x.get("text") or "", x.get("files"), rng.choice(["reverse", "sorted", "shuffled", "raw", "raw"]))]
                hname = "interner-preload"
            elif hk == 3:
                hist = [dict(rng.choice(bad)) for _ in range(rng.range(1, 5))] + [clean(rng.choice(general))]
                hname = "failing-prefix"
            elif hk == 4:
                y = clean(x)
                y["style"] = "compressed" if y.get("style") != "compressed" else "expanded"
                hist = [y, clean(rng.choice(targeted))]
                hname = "other-style-prefix"
            else:
                hist = [preload(x.get("text") or "", x.get("files"), rng.choice(["reverse", "raw"]))] + [clean(rng.choice(targeted)) for _ in range(rng.range(1, 8))]
                hname = "preload+targeted-prefix"
            rs = w.history(hist + [clean(x)])
            sh.ev(len(hist) + 1)
            sh.count("history_runs")
            sh.count("history_" + hname)
            if isinstance(rs, dict):
                sh.inconc("history-request-failed:" + ",".join(sorted(rs.keys())))
                continue
            got = key(rs[-1])
            from ..core import h64
            sh.nontrivial([hname, h64(json.dumps(hist, sort_keys=True)), json.dumps(clean(x), sort_keys=True)])
            if got != ref:
                report(sh, "history:" + hname, x, ref, got, history=hist)
            if round_ < 4:
                sh.sample({"mode": "history:" + hname, "history_len": len(hist), "x": clean(x), "result": list(got)[:2]})
        elif mode == 5:
            # (p): fresh processes with fresh hash seeds
            xs = [rng.choice(targeted) for _ in range(24)] + [rng.choice(general) for _ in range(40)]
            refl = [ref_of(x) for x in xs]
            for p in range(3):
                w2 = worker.Worker(sh.bins["R"])
                try:
                    rs = w2.batch([clean(x) for x in xs], fresh=True)
                finally:
                    w2.close()
                sh.ev(len(xs))
                sh.count("process_runs")
                for x, ref, r in zip(xs, refl, rs):
                    sh.nontrivial(["proc", procs_done, p, json.dumps(clean(x), sort_keys=True)])
                    if key(r) != ref:
                        report(sh, "fresh-process", x, ref, key(r))
            procs_done += 1
        else:
            # (s): concurrent threads
            n = rng.choice([2, 4, 8, 16])
            m = rng.range(4, 12)
            xs = [rng.choice(targeted) if rng.chance(0.5) else rng.choice(general) for _ in range(m)]
            refl = {json.dumps(clean(x), sort_keys=True): ref_of(x) for x in xs}
            lists = []
            for t in range(n):
                l = [clean(x) for x in xs]
                rng.shuffle(l)
                lists.append(l)
            rs = w.threads(lists)
            sh.ev(n * m)
            sh.count("thread_runs")
            sh.count("threads_%d" % n)
            if isinstance(rs, dict):
                sh.inconc("threads-request-failed:" + ",".join(sorted(rs.keys())))
                continue
            for l, rl in zip(lists, rs):
                if isinstance(rl, dict):
                    sh.violation("thread-panicked", "a compile thread panicked outside catch_unwind", {"mode": "threads", "lists": lists}, {})
                    continue
                for x, r in zip(l, rl):
                    k = json.dumps(x, sort_keys=True)
                    sh.nontrivial(["threads", n, round_, sh.shard, k])
                    if key(r) != refl[k]:
                        report(sh, "threads:%d" % n, x, refl[k], key(r), extra={"lists": lists})

    if sh.tier == "thorough" and sh.shard == 0:
        _sanitizers(sh, targeted, general)


def _write_requests(path, reqs):
    with open(path, "w") as f:
        for r in reqs:
            f.write(json.dumps(r) + "\n")


def _sanitizers(sh, targeted, general):
    rng = sh.rng
    # --- ThreadSanitizer: threaded workload, any report fails
    if "tsan" in sh.bins:
        d = tempfile.mkdtemp(prefix="vp-c02-")
        try:
            reqs = []
            for i in range(30):
                xs = [clean(rng.choice(targeted)) if rng.chance(0.6) else clean(rng.choice(general)) for _ in range(8)]
                lists = []
                for t in range(rng.choice([2, 4, 8])):
                    l = list(xs)
                    rng.shuffle(l)
                    lists.append(l)
                reqs.append({"threads": lists})
            _write_requests(os.path.join(d, "in.jsonl"), reqs)
            env = dict(os.environ)
            env["TSAN_OPTIONS"] = "halt_on_error=0:exitcode=66:log_path=%s" % os.path.join(d, "tsan")
            p = subprocess.run([sh.bins["tsan"], "--in", os.path.join(d, "in.jsonl"), "--out", os.path.join(d, "out.jsonl")],
                               env=env, stdout=subprocess.PIPE, stderr=subprocess.STDOUT, timeout=1500)
            reports = 0
            first = ""
            for f in os.listdir(d):
                if f.startswith("tsan"):
                    txt = open(os.path.join(d, f), errors="replace").read()
                    reports += txt.count("WARNING: ThreadSanitizer")
                    first = first or txt[:1500]
            sh.count("tsan_thread_requests", len(reqs))
            sh.count("tsan_reports", reports)
            sh.ev(sum(len(l) for r in reqs for l in r["threads"]))
            if reports or p.returncode not in (0,):
                if reports:
                    sh.violation("tsan-report", "ThreadSanitizer reported %d issue(s):\n%s" % (reports, first),
                                 {"mode": "tsan", "requests": reqs[:3]}, {"report": first})
                else:
                    sh.inconc("tsan-run-exit-%s" % p.returncode)
        except subprocess.TimeoutExpired:
            sh.inconc("tsan-timeout")
        finally:
            import shutil
            shutil.rmtree(d, ignore_errors=True)
    # --- Miri: seeded schedules of a small threaded workload
    _miri(sh, targeted)


def _miri(sh, targeted, seeds=6):
    d = tempfile.mkdtemp(prefix="vp-c02-miri-")
    try:
        small = [clean(x) for x in targeted if "text" in x][:6]
        reqs = [{"threads": [small[:3], small[3:6][::-1], small[1:4]], "stack_mb": 4}]
        _write_requests(os.path.join(d, "in.jsonl"), reqs)
        h, env = build.miri_cmd()
        procs = []
        for seed in range(seeds):
            e = dict(env)
            e["MIRIFLAGS"] = env["MIRIFLAGS"] + " -Zmiri-seed=%d" % (seed + sh.seed * 100)
            out = os.path.join(d, "out%d.jsonl" % seed)
            procs.append((seed, out, subprocess.Popen(
                ["cargo", "+nightly", "miri", "run", "--offline", "--quiet", "--", "--in", os.path.join(d, "in.jsonl"), "--out", out, "--stack-mb", "4"],
                cwd=h, env=e, stdout=subprocess.PIPE, stderr=subprocess.STDOUT, text=True)))
        outs = []
        for seed, out, p in procs:
            try:
                txt, _ = p.communicate(timeout=1500)
            except subprocess.TimeoutExpired:
                p.kill()
                sh.inconc("miri-timeout")
                continue
            sh.count("miri_seeds_run")
            if p.returncode != 0:
                if "Undefined Behavior" in txt or "data race" in txt.lower():
                    sh.violation("miri-ub", "Miri reported UB/data race (seed %d):\n%s" % (seed, txt[-2500:]),
                                 {"mode": "miri", "seed": seed, "requests": reqs}, {"report": txt[-2500:]})
                else:
                    sh.inconc("miri-nonzero-exit")
                    sh.count("miri_other_failure")
                continue
            try:
                res = [json.loads(l) for l in open(out)]
                outs.append((seed, json.dumps([[key(r) for r in l] for l in res[0]["results"]], sort_keys=True)))
                sh.ev(sum(len(l) for l in reqs[0]["threads"]))
            except Exception:
                sh.inconc("miri-output-unreadable")
        if len(set(o for _, o in outs)) > 1:
            sh.violation("miri-schedule-dependent-result", "results differ between Miri schedules", {"mode": "miri", "requests": reqs}, {"outs": outs[:3]})
        sh.count("miri_distinct_schedules_agreeing", len(outs))
    finally:
        import shutil
        shutil.rmtree(d, ignore_errors=True)


def replay(sh, payload):
    r = payload["replay"]
    x = r["x"]
    w = sh.w
    ref = key(w.batch([x], fresh=True)[0])
    if r.get("history") is not None:
        rs = w.history(r["history"] + [x])
        got = key(rs[-1])
        print("reference:", ref)
        print("observed: ", got)
        return "violated" if got != ref else "held"
    lists = (r.get("extra") or {}).get("lists")
    if str(r.get("mode", "")).startswith("threads") and lists:
        # re-run the recorded concurrent schedule request repeatedly (the OS picks the interleaving: a race is a
        # probabilistic observation, so "held" here means "did not recur in 40 runs")
        want = json.dumps(x, sort_keys=True)
        diffs = 0
        for i in range(40):
            rs = w.threads(lists)
            if isinstance(rs, dict):
                return "inconclusive"
            for l, rl in zip(lists, rs):
                if isinstance(rl, dict):
                    continue
                for y, res in zip(l, rl):
                    if json.dumps(y, sort_keys=True) == want and key(res) != ref:
                        diffs += 1
                        if diffs <= 2:
                            print("reference:", ref)
                            print("observed: ", key(res))
            if diffs:
                break
        return "violated" if diffs else "held"
    # process mode: repeat in fresh processes
    diffs = 0
    for i in range(40):     # (process-dependent layouts are a probabilistic observation: "held" = did not recur in 40 processes)
        if diffs:
            break
        w2 = worker.Worker(sh.bins["R"])
        got = key(w2.batch([x], fresh=True)[0])
        w2.close()
        if got != ref:
            diffs += 1
            print("reference:", ref)
            print("observed: ", got)
    return "violated" if diffs else "held"
