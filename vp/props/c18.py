"""C18 — the three input syntaxes and insignificant source variations agree.
Metamorphic monitor: outputs (bytes, or failure) must be equal between (a) the SCSS and the indented print of the
same generated program, (b) plain-CSS text parsed as CSS and as SCSS, (c) a source and its variants under newline
style, inserted whitespace / silent comments, leading BOM / @charset, and `_`<->`-` swaps in names; Sass-only
constructs must be rejected in CSS mode."""
import re

from .. import corpus
from ..gen import ast, program

ID = "C18"
RULE = ("generated programs (C03 generator) printed by two independent printers (SCSS, indented) and rewritten by "
        "token-preserving rewriters (LF->CRLF/CR/FF, blank lines, trailing spaces, `//` comment lines, spaces between tokens replaced by "
        "newlines / indentation / tabs / end-of-line comments, leading BOM/@charset, "
        "consistent and inconsistent `_`/`-` swaps in variable, function and mixin names); golden-corpus inputs under the "
        "newline/BOM/@charset rewrites; plain-CSS outputs of the corpus re-parsed as CSS and as SCSS; a family of Sass-only "
        "constructs (statements, nested rules / `&` / nested properties, SassScript values) x embedding contexts that CSS mode must reject. non-trivial = the base compilation succeeds with non-empty output or "
        "fails; distinct = distinct (base text, variant).")
ASSUMPTIONS = ["byte equality of outputs is required except for the `//`-comment/blank-line rewrites of corpus inputs, which are compared on the error/success status and the CSS text as well (silent comments are never emitted)"]


def plan(tier):
    return {"budget_s": 55 if tier == "quick" else 500, "profiles": ["R"], "min_evaluations": 2000}


SASS_ONLY = [
    "$a: 1; b { c: $a; }", "a { b { c: d; } }", "a { &:hover { c: d; } }", "@mixin m { a: b; } c { @include m; }",
    "a { b: #{1 + 1}; }", "a { b: c; } // comment", "@function f() { @return 1; } a { b: f(); }", "a { b: 1 + 1; }",
    "@if true { a { b: c; } }", "@each $i in 1 2 { a { b: $i; } }", "%p { a: b; } c { @extend %p; }", "a { b: (1 2); }",
    "@use 'sass:math'; a { b: math.div(1, 2); }", "a { b: { c: d; } }", "@debug 1;", "@warn x;", "@at-root a { b: c; }",
    "a { b: if(true, 1, 2); }", "@for $i from 1 through 2 { a { b: c; } }", "a { b: 1 * 2; }", "a { b: $x; }",
]

# Family: Sass-only construct x embedding context, all parsed in CSS mode (every member must be rejected).
# Not members: `@else`, `@use`, `@forward` — CSS mode treats them as unknown at-rules and passes them through unevaluated
# (as the reference implementation of that vintage does); nothing Sass-like happens to them.
SO_STMT = ["$a: 1;", "$a: 1 !default;", "@mixin m { a: b; }", "@include m;", "@include m { a: b; }", "@function f() { @return 1; }", "@return 1;",
           "@if true { a { b: c; } }", "@if false { a { b: c; } } @else { d { e: f; } }", "@each $i in 1 2 { a { b: c; } }",
           "@for $i from 1 through 2 { a { b: c; } }", "@while false { a { b: c; } }", "@debug 1;", "@warn x;", "@error x;",
           "@at-root a { b: c; }", "@at-root { a { b: c; } }", "@content;", "@extend a;", "@extend %p;", "// comment\n",
           "%p { a: b; }", "#{a} { b: c; }", "a#{b} { c: d; }"]
SO_STMT_CTX = ["%s", "x { y: z; } %s", "%s x { y: z; }", "@media screen { %s }", "@supports (a: b) { %s }", "x { %s }", "@font-face { %s }",
               "@media screen { x { %s } }"]
SO_RULE = ["&:hover { c: d; }", "& { c: d; }", "b { c: d; }", "b: { c: d; }", "b: e { c: d; }", "#{b}: c;", "b-#{c}: d;", "@extend x;",
           "+ b { c: d; }", "> b { c: d; }", "~ b { c: d; }", ".k & { c: d; }", "b, c { d: e; }"]
SO_RULE_CTX = ["a { %s }", "a { x: y; %s }", "a { %s x: y; }", "@media screen { a { %s } }", "@supports (p: q) { a { %s } }"]
SO_VAL = ["$x", "#{1}", "a#{b}c", "1 + 1", "1 * 2", "1 % 2", "1 - 1", "(1 2)", "(a: b)", "(1, 2)", "if(true, 1, 2)", "math.div(1, 2)", "1 == 1",
          "1 < 2", "-$x", "f($x)", "f($a: 1)", "f(1...)", "(1 + 1)", "1 !default", "&", "a !global", "1 != 2", "+$x", "\"a#{b}\""]
SO_VAL_CTX = ["a { b: %s; }", "a { b: c %s; }", "a { b: f(%s); }", "a { b: %s, d; }", "@media screen { a { b: %s; } }", "a { b: c; d: %s }"]


# plain-CSS statements that may precede the construct in the same scope (parser state left behind by an earlier statement
# must not change what is accepted afterwards)
SO_PRE = ["@namespace svg url(http://x.test/svg);", "@layer a, b;", "@foo bar;", "@foo bar { x { y: z; } }", "@media screen { x { y: z; } }",
          "@supports (a: b) { x { y: z; } }", "@font-face { font-family: f; }", "@import url(x.css);", "/* c */", "x { --v: { a: b }; }",
          "x { y: url(a b); }", "@keyframes k { from { a: b; } }", "@page :first { margin: 1in; }"]


def sass_only_family():
    out = list(SASS_ONLY)
    for frag, ctxs in ((SO_STMT, SO_STMT_CTX), (SO_RULE, SO_RULE_CTX), (SO_VAL, SO_VAL_CTX)):
        for f in frag:
            for c in ctxs:
                out.append(c % f)
    for pre in SO_PRE:
        for f in SO_STMT:
            out.append("%s %s" % (pre, f))
        for f in SO_RULE:
            out.append("%s a { %s }" % (pre, f))
            out.append("@media screen { %s a { %s } }" % (pre, f))
        for f in SO_VAL[:12]:
            out.append("%s a { b: %s; }" % (pre, f))
    return out


NAME_RX = re.compile(r"(\$[a-z]+p?-\d+|\$nu-\d+|\$lrest-\d+|\bfn-\d+|\bmx-\d+)")


def key(res):
    if "ok" in res:
        return ("ok", res["ok"])
    if "err" in res:
        return ("err", "")
    if "panic" in res:
        return ("panic", res["panic"].get("msg", "")[:60])
    return ("other", str(sorted(res.keys())))


def variants_of_scss(rng, text, generated):
    out = []
    out.append(("crlf", text.replace("\n", "\r\n")))
    out.append(("cr", text.replace("\n", "\r")))
    out.append(("ff", text.replace("\n", "\f")))
    out.append(("bom", "﻿" + text))
    out.append(("charset", '@charset "UTF-8";\n' + text))
    if generated:
        lines = text.split("\n")
        ws = []
        for l in lines:
            ws.append(l + rng.choice(["", " ", "  ", "\t"]))
            if rng.chance(0.2):
                ws.append(rng.choice(["", "   ", "// silent comment", "  // x { y: z; }", "/* */" if False else ""]))
        out.append(("whitespace+comments", "\n".join(ws)))
        out.append(("underscores", NAME_RX.sub(lambda m: m.group(0).replace("-", "_"), text)))
        out.append(("mixed-underscores", NAME_RX.sub(lambda m: m.group(0).replace("-", "_") if rng.chance(0.5) else m.group(0), text)))
        # more spaces around tokens that are always separable in the printed form
        if "--" not in text and "url(" not in text:
            out.append(("inner-whitespace", respace(rng, text)))
            out.append(("inner-whitespace", respace(rng, text)))
        out.append(("spaces", text.replace(": ", ":   ").replace(", ", " ,  ").replace(" {", "   {").replace(";", " ;")))
    return out


def respace(rng, text):
    """replace single spaces between tokens (outside quoted strings and comments) by other whitespace: a newline with
    or without indentation, CRLF, a tab, or a silent comment running to the end of the line. Not after a comma: Sass
    deliberately keeps a line break that follows a comma of a selector list."""
    out = []
    stack = []          # open contexts: a quote character, or "{" for an interpolation opened inside a string
    i, n = 0, len(text)
    while i < n:
        c = text[i]
        in_string = bool(stack) and stack[-1] in "\"'"
        if in_string:
            out.append(c)
            if c == "\\" and i + 1 < n:
                out.append(text[i + 1])
                i += 2
                continue
            if c == stack[-1]:
                stack.pop()
            elif c == "#" and text[i:i + 2] == "#{":
                out.append("{")
                stack.append("{")
                i += 2
                continue
        elif c in "\"'":
            stack.append(c)
            out.append(c)
        elif c == "{" and stack:
            stack.append("(")      # a nested brace inside an interpolation (maps etc. use parens, but stay safe)
            out.append(c)
        elif c == "}" and stack:
            stack.pop()
            out.append(c)
        elif c == "/" and text[i:i + 2] == "//" and not stack:
            j = text.find("\n", i)
            j = n if j < 0 else j
            out.append(text[i:j])
            i = j
            continue
        elif c == "/" and text[i:i + 2] == "/*" and not stack:
            j = text.find("*/", i + 2)
            j = n if j < 0 else j + 2
            out.append(text[i:j])
            i = j
            continue
        elif c == " " and not stack and 0 < i < n - 1 and text[i - 1] not in " \n," and text[i + 1] not in " \n" and rng.chance(0.3):
            out.append(rng.choice(["\n", "\n", "\n    ", "\r\n", "\t", " // c\n", "\n\n", "\f"]))
        else:
            out.append(c)
        i += 1
    return "".join(out)


def variants_of_sass(rng, text):
    out = [("crlf", text.replace("\n", "\r\n")), ("cr", text.replace("\n", "\r")), ("ff", text.replace("\n", "\f")), ("bom", "﻿" + text)]
    lines = text.split("\n")
    ws = []
    for l in lines:
        ws.append(l + rng.choice(["", " ", "  "]))
        if rng.chance(0.15):
            ws.append("")
    out.append(("blank-lines", "\n".join(ws)))
    out.append(("underscores", NAME_RX.sub(lambda m: m.group(0).replace("-", "_"), text)))
    return out


def compare(sh, what, base_text, base_syntax, base_res, var_text, var_syntax, var_res):
    sh.ev()
    a, b = key(base_res), key(var_res)
    if any(k[0] == "other" for k in (a, b)) or any("VERIF-BUDGET" in str(k) for k in (a, b)):
        sh.inconc("budget-or-worker")
        return
    if a != b:
        from ..core import h64
        sh.violation("%s:%016x" % (what, h64(base_text)),
                     "`%s` changes the result\nbase (%s): %s\nvariant (%s): %s\n--- base source\n%s\n--- variant source\n%s" % (
                         what, base_syntax, str(a)[:300], var_syntax, str(b)[:300], base_text[:900], var_text[:900]),
                     {"base": {"text": base_text, "syntax": base_syntax}, "variant": {"text": var_text, "syntax": var_syntax}, "what": what},
                     {"what": what, "base": base_text, "variant": var_text, "base_result": list(a), "variant_result": list(b)})
        return
    sh.count("agree_" + what)
    if a[0] == "err" or a[1]:
        sh.nontrivial([what, base_text])


def run(sh):
    rng = sh.rng
    items = [it for it in corpus.items() if not it["ignored"] and "random(" not in it["input"] and "unique-id" not in it["input"]]
    mine = [it for i, it in enumerate(items) if i % sh.nshards == sh.shard]
    # (c) corpus under newline / BOM / charset rewrites
    rng.shuffle(mine)
    for base in range(0, len(mine), 12):
        if sh.past(0.4):
            sh.count("corpus_items_skipped_time", len(mine) - base)
            break
        chunk = mine[base:base + 12]
        specs, meta = [], []
        for it in chunk:
            syn = it["spec"].get("syntax") or "scss"
            if "\r" in it["input"] or "\f" in it["input"] or it["input"].startswith(("\ufeff", "@charset")):
                continue
            b = {"text": it["input"], "syntax": syn, "budgets": {"steps": 300000}}
            vs = variants_of_scss(rng, it["input"], False)
            if syn == "sass":
                vs = [v for v in vs if v[0] != "charset"]
            if re.search(r"""["'][^"'\n]*\\\n""", it["input"]) or "\\\n" in it["input"]:
                continue   # escaped newline inside a string: CRLF would change the string itself
            specs.append(b)
            meta.append(("base", it["input"], syn, None))
            for name, t in vs:
                specs.append({"text": t, "syntax": syn, "budgets": {"steps": 300000}})
                meta.append((name, it["input"], syn, t))
        rs = sh.w.batch(specs)
        base_res = None
        for (name, src, syn, t), r in zip(meta, rs):
            if name == "base":
                base_res = r
            else:
                compare(sh, "corpus:" + name, src, syn, base_res, t, syn, r)
    # (b) plain CSS outputs of the corpus: CSS vs SCSS parse. Domain = outputs that are plain CSS using no Sass
    # feature: the items C05 lists as "expected output deliberately not plain CSS" and Sass-style @import are out.
    from . import c05
    excl = c05.exclusions()
    excl_inputs = {it["input"] for it in corpus.items() if (it["file"] + "::" + it["name"]) in excl}
    for base in range(0, len(mine), 24):
        if sh.past(0.55):
            break
        chunk = [it for it in mine[base:base + 24] if it["kind"] == "test" and it["expected"].strip()
                 and it["input"] not in excl_inputs and "@import" not in it["expected"]]
        specs = []
        for it in chunk:
            specs.append({"text": it["expected"], "syntax": "css", "budgets": {"steps": 300000}})
            specs.append({"text": it["expected"], "syntax": "scss", "budgets": {"steps": 300000}})
        rs = sh.w.batch(specs)
        for i, it in enumerate(chunk):
            rc, rsx = rs[2 * i], rs[2 * i + 1]
            if "ok" in rc:
                # accepted as plain CSS: then SCSS must agree (CSS that uses no Sass features)
                compare(sh, "css-vs-scss", it["expected"], "css", rc, it["expected"], "scss", rsx)
            else:
                sh.count("corpus_output_not_plain_css")
    # (3) Sass-only constructs rejected in CSS mode
    if sh.shard == 0:
        fam = sass_only_family()
        rs = sh.w.batch([{"text": t, "syntax": "css"} for t in fam])
        for t, r in zip(fam, rs):
            sh.ev()
            if "err" not in r:
                sh.violation("sass-accepted-in-css-mode:" + t, "Sass-only construct accepted in CSS mode: %s -> %s" % (t, str(r.get("ok"))[:100]),
                             {"base": {"text": t, "syntax": "css"}}, {"text": t})
            else:
                sh.count("sass_only_rejected")
                sh.nontrivial(["sass-only", t])
    # (a)+(c) generated programs
    n = 0
    while not sh.expired():
        specs, meta = [], []
        for _ in range(8):
            prog = program.program(rng, rng.range(8, 30))
            scss, sass = ast.to_scss(prog), ast.to_sass(prog)
            style = rng.choice(["expanded", "compressed"])
            specs.append({"text": scss, "syntax": "scss", "style": style, "budgets": {"steps": 300000}})
            meta.append(("base", scss, "scss", None))
            specs.append({"text": sass, "syntax": "sass", "style": style, "budgets": {"steps": 300000}})
            meta.append(("indented-print", scss, "sass", sass))
            for name, t in variants_of_scss(rng, scss, True):
                specs.append({"text": t, "syntax": "scss", "style": style, "budgets": {"steps": 300000}})
                meta.append((name, scss, "scss", t))
            for name, t in variants_of_sass(rng, sass):
                specs.append({"text": t, "syntax": "sass", "style": style, "budgets": {"steps": 300000}})
                meta.append(("indented:" + name, scss, "sass", t))
            if n < 2:
                sh.sample({"scss": scss[:600], "indented": sass[:600]})
                n += 1
        rs = sh.w.batch(specs)
        base_res = None
        for (name, src, syn, t), r in zip(meta, rs):
            if name == "base":
                base_res = r
            else:
                compare(sh, name, src, "scss", base_res, t, syn, r)


def replay(sh, payload):
    r = payload["replay"]
    a = sh.w.compile(r["base"])
    print("base:", key(a))
    if "variant" in r:
        b = sh.w.compile(r["variant"])
        print("variant:", key(b))
        return "violated" if key(a) != key(b) else "held"
    return "violated" if "err" not in a else "held"
