"""C19 — diagnostics are located, renderable and routed only through the Logger.
Monitors: (a) bounds arithmetic on every reported error location against the file bytes the harness supplied
(file is the entry or a file that was read; begin <= end; lines/columns inside the text); Display never fails, starts
with `Error: <message>`, ASCII mode stays ASCII; (b) the Logger event log of generated programs against the
reference interpreter's trace with the file and 1-based line of each directive (known from the printers), in the
entry file and in imported/used files; (c) quiet => empty trace; (d) custom Logger => nothing on fd 1/2."""
from .. import corpus
from ..gen import ast, program, soup
from ..model import sassscript as M
from . import c03

ID = "C19"
RULE = ("failing inputs: golden-corpus error! items, near-miss mutations, token soup and ill-typed builtin calls in all three "
        "syntaxes, entry files and files reached through @import/@use (multi-byte text, interpolated selectors/media "
        "queries) x {unicode, ascii}; programs with @debug/@warn/@error in loops, mixins, functions, content blocks "
        "and imported files (C03 generator) x {quiet on/off}, printed as SCSS and indented. non-trivial = a located "
        "error, or a trace with >= 1 event; distinct = distinct (input, options).")
ASSUMPTIONS = ["identical (location, message) warnings may be delivered once or several times (collapsed on both sides)",
               "IoError/FromUtf8Error results (unreadable / non-UTF-8 files) carry no location by design of the public API and are only checked for renderability"]


def plan(tier):
    return {"budget_s": 60 if tier == "quick" else 500, "profiles": ["R"], "min_evaluations": 2000}


def line_col_ok(text, line, col):
    lines = text.split("\n")
    if line < 0 or line >= len(lines):
        return False
    return 0 <= col <= len(lines[line]) + 1


def check_error(sh, spec, res, texts):
    """texts: {file name: text}"""
    e = res["err"]
    sh.ev()
    from ..core import h64
    h = "%016x" % h64(str(spec.get("text") or spec.get("files")) + str(spec.get("syntax")))
    rp = {"spec": spec}
    facts = {"input": spec.get("text") or spec.get("files"), "syntax": spec.get("syntax"), "err": {k: v for k, v in e.items() if k != "disp"}, "disp": e.get("disp")}
    if e.get("kind") == "kind_panicked" or isinstance(e.get("disp"), dict):
        sh.violation("error-not-renderable:" + h, "Error::kind()/Display panicked: %s" % str(e)[:300], rp, facts)
        return
    disp = e.get("disp") or ""
    if e.get("kind") in ("io", "utf8"):
        if not disp.startswith("Error: "):
            sh.violation("display-prefix:" + h, "Display does not start with `Error: `: %r" % disp[:100], rp, facts)
        else:
            sh.count("unlocated_io_or_utf8_error_renderable")
        return
    if e.get("kind") != "parse":
        sh.violation("unknown-error-kind:" + h, str(e)[:200], rp, facts)
        return
    msg = e["msg"]
    if not disp.startswith("Error: " + msg.split("\n")[0]):
        sh.violation("display-prefix:" + h, "Display does not start with `Error: <message>`\nmessage: %r\ndisplay: %r" % (msg[:100], disp[:200]), rp, facts)
        return
    fname = e["file"]
    if fname not in texts:
        sh.violation("error-names-unknown-file:" + h, "error names file %r which is neither the entry nor a file that was read (%s)" % (fname, sorted(texts)), rp, facts)
        return
    text = texts[fname]
    if e["src_len"] != len(text.encode("utf-8")):
        sh.violation("error-file-text-mismatch:" + h, "the text attached to the error location has %d bytes, the file %r has %d" % (e["src_len"], fname, len(text.encode("utf-8"))), rp, facts)
        return
    bl, bc, el, ec = e["bl"], e["bc"], e["el"], e["ec"]
    if not line_col_ok(text, bl, bc) or not line_col_ok(text, el, ec) or (el, ec) < (bl, bc):
        sh.violation("location-out-of-bounds:" + h, "location %d:%d-%d:%d is not inside %r (%d lines)\ninput: %r" % (bl, bc, el, ec, fname, text.count("\n") + 1, text[:200]), rp, facts)
        return
    if not e.get("unicode", True):
        allowed = set(msg) | set(text)
        bad = [c for c in disp if ord(c) > 127 and c not in allowed]
        if bad:
            sh.violation("ascii-mode-non-ascii:" + h, "ASCII error rendering contains %r" % bad[:5], rp, facts)
            return
    sh.count("located_errors_ok")
    sh.nontrivial([spec.get("text") or str(spec.get("files")), spec.get("syntax"), spec.get("unicode")])


def run_failing(sh, specs):
    rs = sh.w.batch([{k: v for k, v in s.items() if not k.startswith("_")} for s in specs])
    for s, r in zip(specs, rs):
        if "fd12" in r:
            sh.ev()
            sh.violation("writes-to-stdio:" + str(hash(s.get("text")))[:12], "custom Logger in use but the library wrote to stdout/stderr: %r" % r["fd12"][:200], {"spec": s}, {"fd12": r["fd12"][:400]})
        if "err" in r:
            if "text" in s:
                texts = {"stdin": s["text"]}
            else:
                texts = {}
                for p, v in s["files"].items():
                    if isinstance(v, str):
                        texts[p] = v
            check_error(sh, s, r, texts)
        elif "ok" in r:
            sh.count("compiled_ok")
        elif "panic" in r and not r["panic"].get("msg", "").startswith("VERIF-BUDGET"):
            sh.count("panic_seen_(C01_subject)")


# every construct for which the compiler (or the reference implementation) has a message of its own — a warning that
# does not come from a @warn/@debug rule — so that `quiet` is observed on all message sources, not only on the two rules
OWN_MESSAGE_SOURCES = [
    ({"/p/main.scss": '@use "sass:meta";\na { @include meta.load-css("dep", $with: (x: 1)); }\n', "/p/_dep.scss": "$x: 0 !default;\nb { c: $x; }\n"}),
    ({"/p/main.scss": '@use "sass:meta";\n@include meta.load-css("dep", $with: ());\n', "/p/_dep.scss": "@warn in-dep;\nb { c: d; }\n"}),
    ({"/p/main.scss": "a { b: 1/2 + 1; c: (4/2); $x: 6; d: $x/3; }\n"}),
    ({"/p/main.scss": "@if false { a { b: c; } } @elseif true { d { e: f; } }\n"}),
    ({"/p/main.scss": "a { $undeclared: 1 !global; b: $undeclared; }\n"}),
    ({"/p/main.scss": 'a { b: call("str-length", "xy"); }\n'}),
    ({"/p/main.scss": '@import "dep";\na { b: $x; }\n', "/p/_dep.scss": "$x: 1;\n@debug dep-debug;\n"}),
    ({"/p/main.scss": "$x: 1 !default !default; a { b: $x; }\n"}),
    ({"/p/main.scss": ".a.b { c: d; } .e { @extend .a.b; }\n"}),
    ({"/p/main.scss": "a { b: random(1px); c: percentage(1px); }\n"}),
    ({"/p/main.scss": "a { b: lighten(red, 10); c: transparentize(red, 10%); d: alpha(1); e: opacity(red); }\n"}),
    ({"/p/main.scss": "a { b: color-adjust(red); c: adjust-hue(red, 10%); d: hsl(10deg, 10, 10); e: hsl(10, 10%, 10%, 50); }\n"}),
    ({"/p/main.scss": "a { b: map-merge((a: 1), (a: 2)); c: nth((a: 1), 1); d: join(a, b, $separator: slash); }\n"}),
    ({"/p/main.scss": "@function -private() { @return 1; } @mixin _m { x: y; } a { b: -private(); @include -m; }\n"}),
    ({"/p/main.scss": "a { b: 1 +  -2; c: 1 - -2; d: 1 -2; e: a -b; f: +a; g: -a; h: /a; i: 1- 2; }\n"}),
    ({"/p/main.scss": "a, { b: c; } , d { e: f; } a > > b { c: d; } > e { f: g; } h + { i: j; }\n"}),
    ({"/p/main.scss": "@media (min-width: 1px) and { a { b: c; } }\n"}),
    ({"/p/main.scss": "a { b: 10px * 1px / 1px; c: (1px*1px)/1px; d: 1e3; e: 1E3px; f: math-div; }\n"}),
    ({"/p/main.scss": "a { --x: $y; --z: #{1 + 1}; b: var(--x,); c: calc(1px+2px); d: calc(1 + 2) ; }\n"}),
    ({"/p/main.scss": "@use 'sass:color'; a { b: color.red(red); c: color.alpha(#f008); d: red(red); e: color.invert(red, 200%); }\n"}),
    ({"/p/main.scss": "@use 'sass:math'; a { b: math.abs(-1%); c: math.div(1, 0); d: math.round(1.5px); e: 1 % 0; f: -1 % 3; }\n"}),
    ({"/p/main.scss": "@use 'sass:string'; a { b: string.slice(abc, 0); c: string.index(a, ''); d: unquote(1); e: quote(a b); }\n"}),
    ({"/p/main.scss": "@use 'sass:list'; a { b: list.nth(a b, -1); c: list.join((), ()); d: list.separator(()); e: append((), a, auto); }\n"}),
    ({"/p/main.scss": "@use 'sass:selector'; a { b: selector.extend('a', 'a', 'b c'); c: selector.unify('a', '.b'); &b { c: d; } }\n"}),
    ({"/p/main.scss": "@forward 'dep' show x; @use 'dep' as d; a { b: d.$x; }\n", "/p/_dep.scss": "$x: 1;\n@warn dep-warn;\n"}),
    ({"/p/main.scss": "@charset 'latin-1'; a { b: '\\e9'; }\n"}),
    ({"/p/main.scss": "@at-root { a { b: c; } } @at-root (with: foo) { d { e: f; } } @keyframes k { 101% { a: b; } x { c: d; } }\n"}),
    ({"/p/main.scss": "a { b: if(true, 1); }\n"}),
    ({"/p/main.scss": "@mixin m($a, $a) { b: $a; }\n"}),
    ({"/p/main.scss": "a { b: #{null}; c: null; d: (); e: #{()}; f: \"#{(a: 1)}\"; }\n"}),
]


def run_own_message_sources(sh):
    """quiet on: the Logger must stay empty whatever produces the message; quiet off: the same CSS / the same failure"""
    specs = []
    for files in OWN_MESSAGE_SOURCES:
        for quiet in (True, False):
            for style in ("expanded", "compressed"):
                specs.append({"entry": "/p/main.scss", "files": files, "quiet": quiet, "style": style})
    rs = sh.w.batch(specs)
    for k in range(0, len(specs), 4):
        files = specs[k]["files"]
        text = files["/p/main.scss"]
        for j in (0, 1):
            q, l = rs[k + j], rs[k + 2 + j]
            sh.ev(2)
            rp = {"entry": "/p/main.scss", "files": files, "quiet": True, "style": specs[k + j]["style"]}
            facts = {"program": text, "quiet": True}
            if "fd12" in q or "fd12" in l:
                sh.violation("writes-to-stdio:own:" + text[:40], "custom Logger in use but the library wrote to stdout/stderr: %r" % (q.get("fd12") or l.get("fd12"))[:200], rp, facts)
                continue
            got = [(x[0], x[1], x[2], x[4]) for x in q.get("log", [])]
            if got:
                sh.violation("quiet-not-silent:own:" + text[:40], "quiet is set but the Logger received %s\n%s" % (got[:4], text), rp, dict(facts, log=got[:20]))
                continue
            a = ("ok", q.get("ok")) if "ok" in q else ("err", (q.get("err") or {}).get("msg")) if "err" in q else ("other", str(sorted(q.keys())))
            b = ("ok", l.get("ok")) if "ok" in l else ("err", (l.get("err") or {}).get("msg")) if "err" in l else ("other", str(sorted(l.keys())))
            if a != b:
                sh.violation("quiet-changes-result:own:" + text[:40], "the result differs between quiet and not quiet: %s vs %s\n%s" % (str(a)[:200], str(b)[:200], text), rp, facts)
                continue
            sh.count("own_message_sources_quiet_silent")
            if l.get("log"):
                sh.count("own_message_sources_that_log_when_not_quiet")
            sh.nontrivial(["own", text, specs[k + j]["style"]])


def check_trace(sh, prog_text, syntax, quiet, res, expect, line_key, fname, what, spec=None):
    """Logger events vs model trace incl. file + line"""
    sh.ev()
    from ..core import h64
    h = "%016x" % h64(prog_text + syntax + str(quiet) + what)
    rp = {"text": prog_text, "syntax": syntax, "quiet": quiet}
    if spec is not None:
        # case-level replay: the exact request plus the expected trace
        rp = {"trace_case": {"spec": spec, "prog_text": prog_text, "syntax": syntax, "quiet": quiet, "fname": fname, "what": what,
                             "want": None if isinstance(expect, list) else [(k, fname, s.line.get(line_key), m) for k, m, s in expect["log"]],
                             "status": None if isinstance(expect, list) else expect["status"]}}
    facts = {"program": prog_text, "syntax": syntax, "quiet": quiet}
    if "fd12" in res:
        sh.violation("writes-to-stdio:" + h, "custom Logger in use but the library wrote to stdout/stderr: %r" % res["fd12"][:200], rp, dict(facts, fd12=res["fd12"][:400]))
        return
    got = [(l[0], l[1], l[2], l[4]) for l in res.get("log", [])]
    if quiet:
        if got:
            sh.violation("quiet-not-silent:" + h, "quiet is set but the Logger received %s" % got[:4], rp, dict(facts, log=got[:20]))
        else:
            sh.count("quiet_silent")
        return
    if ("err" in res) != (expect["status"] == "error") or "panic" in res:
        sh.inconc("status-differs-(C03-subject)")
        return
    want = expect["want"] if "want" in expect else [(k, fname, s.line.get(line_key), m) for k, m, s in expect["log"]]
    cw = _collapse(want)
    cg = _collapse(got)
    if cw != cg:
        i = 0
        while i < min(len(cw), len(cg)) and cw[i] == cg[i]:
            i += 1
        ending = "cr" if ("\r" in prog_text and "\n" not in prog_text) else ("crlf" if "\r\n" in prog_text else "lf")
        sh.violation("trace:" + h, "Logger trace differs from the expected trace at event #%d\nexpected (kind, file, line, message): %s\nobserved: %s\n%s" % (
            i, cw[i:i + 3], cg[i:i + 3], prog_text[:1200]), rp, dict(facts, expected=cw[:40], observed=cg[:40], line_ending=ending,
                 differs_only_in_line_numbers=_collapse([(a, b, 0, d) for a, b, c, d in want]) == _collapse([(a, b, 0, d) for a, b, c, d in got]),
                 every_observed_line_is_1=bool(cg) and all(c == 1 for a, b, c, d in cg)))
        return
    sh.count("traces_agree")
    if cw:
        sh.nontrivial([prog_text, syntax, what])


def _collapse(events):
    seen = set()
    out = []
    for ev in events:
        if ev[0] == "warn":
            if ev in seen:
                continue
            seen.add(ev)
        out.append(ev)
    return out


def run(sh):
    rng = sh.rng
    items = corpus.items()
    inputs = [it["input"] for it in items]
    errors = [it for i, it in enumerate(items) if it["kind"] == "error" and i % sh.nshards == sh.shard]
    specs = []
    for it in errors:
        for uni in (True, False):
            s = dict(it["spec"])
            s.update({"text": it["input"], "unicode": uni})
            specs.append(s)
    for i in range(0, len(specs), 64):
        run_failing(sh, specs[i:i + 64])
    if sh.shard == 0:
        run_own_message_sources(sh)
    n = 0
    while not sh.expired():
        # ---- failing inputs
        specs = []
        for _ in range(48):
            k = rng.below(10)
            uni = rng.chance(0.5)
            if k < 5:
                t = soup.mutate(rng, rng.choice(inputs), rng.choice(inputs))
                specs.append({"text": t, "syntax": rng.choice(["scss", "sass", "css"]), "unicode": uni, "budgets": {"steps": 200000}})
            elif k < 6:
                specs.append({"text": soup.soup(rng), "syntax": rng.choice(["scss", "sass", "css"]), "unicode": uni, "budgets": {"steps": 200000}})
            elif k < 7:
                specs.append({"text": soup.builtin_call(rng), "syntax": "scss", "unicode": uni, "budgets": {"steps": 200000}})
            elif k < 8:
                # multi-byte text around re-lexed constructs (interpolated selectors, media queries, @extend targets)
                mb = rng.choice(["é", "🎉", "Ⱦ", "ab", "‍"])
                t = rng.choice([
                    "[a#{t}r=%s#{a y}" % mb, ".%s#{1 +} { a: b }" % mb, "@media #{%s} and ( { a { b: c } }" % mb,
                    "a { @extend .%s, ; }" % mb, ".%s#{'['} { a: b }" % mb, "@media (%s: #{1 + a%s}) { x { y: z } }" % (mb, mb),
                    "a { b: selector-parse('%s['); }" % mb, "%s { &#{'('} { a: b } }" % mb, "@supports (%s: #{) { a { b: c } }" % mb,
                    "a { b: %s + ; }" % mb, "/* %s */ a { b: 1 + ; }" % mb, "a { %s: { b: 1 +; } }" % mb])
                specs.append({"text": t, "syntax": rng.choice(["scss", "sass"]), "unicode": uni})
            else:
                bad = soup.mutate(rng, rng.choice(inputs), rng.choice(inputs))
                ext = rng.choice(["scss", "sass", "css"])
                how = rng.choice(["@import", "@use", "@forward"])
                specs.append({"entry": "/p/main.scss", "files": {"/p/main.scss": '// é\n%s "dep";\nx { y: z; }\n' % how, "/p/dep." + ext: bad},
                              "unicode": uni, "budgets": {"steps": 200000}})
        run_failing(sh, specs)
        # ---- traces
        cases = []
        for _ in range(10):
            prog = program.program(rng, rng.range(8, 30))
            try:
                expect = M.execute(prog)
            except M.Unsupported:
                continue
            if not expect["log"] and rng.chance(0.7):
                continue
            cases.append((prog, expect))
        specs, meta = [], []
        for prog, expect in cases:
            scss, sass = ast.to_scss(prog), ast.to_sass(prog)
            # line endings: LF, CRLF and CR are each one line break, so the expected line numbers do not change
            # (the printers never put a raw line break inside a string)
            # (form feed is left out: the statement does not say that it starts a new *numbered* line, and the span
            # library of the reference implementation does not count it either)
            nl_name, nl = rng.choice([("lf", "\n"), ("lf", "\n"), ("crlf", "\r\n"), ("crlf", "\r\n"), ("crlf", "\r\n"), ("cr", "\r")])
            if nl != "\n":
                scss, sass = scss.replace("\n", nl), sass.replace("\n", nl)
                sh.count("trace_programs_with_" + nl_name)
            quiet = rng.chance(0.25)
            specs.append({"text": scss, "syntax": "scss", "quiet": quiet, "budgets": {"steps": 500000}})
            meta.append((scss, "scss", quiet, expect, "scss", "stdin", "entry"))   # (`what` == "entry" also selects samples)
            specs.append({"text": sass, "syntax": "sass", "quiet": quiet, "budgets": {"steps": 500000}})
            meta.append((sass, "sass", quiet, expect, "sass", "stdin", "entry"))
            # the same program reached through @import / @use: diagnostics must name the imported file
            how = rng.choice(["@import", "@use"])
            ext, key_, body = rng.choice([("scss", "scss", scss), ("sass", "sass", sass)])
            path = "/p/sub/_dep." + ext
            specs.append({"entry": "/p/main.scss", "files": {"/p/main.scss": '%s "sub/dep";\n' % how, path: body}, "quiet": quiet, "budgets": {"steps": 500000}})
            meta.append((body, ext, quiet, expect, key_, path, how + ":" + nl_name))
        rs = sh.w.batch(specs)
        for (text, syn, quiet, expect, lk, fname, what), r, spec in zip(meta, rs, specs):
            check_trace(sh, text, syn, quiet, r, expect, lk, fname, what, spec)
            if n < 2 and expect["log"] and not quiet and what == "entry":
                sh.sample({"program": text[:500], "expected_trace": [(k, fname, s.line.get(lk), m) for k, m, s in expect["log"]][:5]})
                n += 1


def replay(sh, payload):
    r = payload["replay"]
    if "trace_case" in r:
        from ..core import rejudge
        c = r["trace_case"]
        res = sh.w.compile(c["spec"])
        print(c["prog_text"])
        print("observed log:", res.get("log"))
        print("expected:", c["want"])
        expect = {"want": [tuple(x) for x in c["want"]], "status": c["status"], "log": []}
        return rejudge(sh, lambda: check_trace(sh, c["prog_text"], c["syntax"], c["quiet"], res, expect, None, c["fname"], c["what"]))
    if "spec" in r:
        print(sh.w.compile({k: v for k, v in r["spec"].items() if not k.startswith("_")}))
    elif "files" in r:
        print(sh.w.compile({k: v for k, v in r.items() if not k.startswith("_")}))
    else:
        print(sh.w.compile({"text": r["text"], "syntax": r["syntax"], "quiet": r.get("quiet", False)}))
    return "see output"
