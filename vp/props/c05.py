"""C05 — output is well-formed, Sass-free CSS and a fixed point of the compiler.
Monitors on every successful compilation in the domain: explicit UTF-8 validation (done in the worker),
independent CSS reader (balance, strings, comments), Sass-syntax scan on the token stream, @charset/BOM
rule, and re-compilation of the output as plain CSS and as SCSS (canonical block lists must be equal)."""
import json
import os
import re

from .. import build, corpus, cssread
from . import c06

ID = "C05"
RULE = ("domain: golden-corpus test! items (minus the committed list of items whose expected output is deliberately "
        "not plain CSS, vp/c05_domain_exclusions.json) and generated programs (C06 generator + hostile string "
        "literals: both quote kinds, backslashes, control characters, newlines, astral/combining characters, escapes "
        "followed by hex digits), each x {expanded, compressed} x {allows_charset on/off}; every successful output is "
        "checked and fed back as CSS and as SCSS. non-trivial = output has at least one block; distinct = distinct "
        "(input, style, charset).")
ASSUMPTIONS = [
    "fixed point is compared on canonical (context, selector, declarations) lists, i.e. modulo blank lines/whitespace as the quantifier states",
    "the CSS reader (CSS Syntax Level 3) is the trusted base for well-formedness",
    "rules without declarations (e.g. a rule holding only a comment that compressed mode removes) are ignored by the fixed-point comparison",
]

SASS_AT = {"mixin", "include", "function", "return", "if", "else", "each", "for", "while", "extend", "use",
           "forward", "debug", "warn", "error", "content", "at-root"}


def plan(tier):
    return {"budget_s": 60 if tier == "quick" else 480, "profiles": ["R"], "min_evaluations": 1000, "params": {"worker_timeout": 5}}


def exclusions():
    p = os.path.join(build.VERIF, "vp", "c05_domain_exclusions.json")
    try:
        return json.load(open(p))
    except OSError:
        return {}


CHARS = ["a", "b", " ", "  ", "\\\\", "\\a", "\\a ", "\\0", "\\9 ", "\\31 2", "\\10ffff ", "\\d800 ", "\\n",
         "\\\n", "é", "e\u0301", "🎉", "\u200d", "\u007f", "\\1 ", "\\1f ", "\\7f ", "\t", "#", "{", "}", "/*", "*/", ";",
         "$", "&", "%", "@", "(", ")", "\\(", "url(", "\u00a0", "\ufeff", "\u2028", "\\\\a", "!", "//", "<!--", "\\g", "\\-"]
QUOTE_ATOMS = {'"': ['\\"', "'", "\\'", '\\\\\\"'], "'": ["\\'", '"', '\\"', "\\\\\\'"]}


def gen_string_program(rng):
    decls = []
    for i in range(rng.range(1, 6)):
        q = rng.choice(['"', "'"])
        body = "".join(rng.choice(QUOTE_ATOMS[q]) if rng.chance(0.15) else rng.choice(CHARS) for _ in range(rng.range(0, 7)))
        lit = q + body + q
        k = rng.below(8)
        if k == 0:
            decls.append("s%d: %s;" % (i, lit))
        elif k == 1:
            decls.append("s%d: unquote(%s) x;" % (i, lit)) if re.fullmatch(r"[ab ]*", body) else decls.append("s%d: %s;" % (i, lit))
        elif k == 2:
            decls.append("s%d: %s + %s;" % (i, lit, lit))
        elif k == 3:
            decls.append('s%d: "#{%s}";' % (i, lit))
        elif k == 4:
            decls.append("s%d: inspect(%s) quote(%s);" % (i, lit, lit))
        elif k == 5:
            decls.append("s%d: (%s, %s) [%s];" % (i, lit, lit, lit))
        elif k == 6:
            decls.append("s%d: str-slice(%s, 2) to-upper-case(%s);" % (i, lit, lit))
        else:
            decls.append("s%d: url(%s) format(%s);" % (i, lit, lit))
    if rng.chance(0.5):
        # attribute values: the serializer decides per value whether the quotes may go (identifier boundary shapes)
        q = rng.choice(['"', "'"])
        if rng.chance(0.6):
            av = rng.choice(["-", "-1", "--", "--x", "-a", "-a1", "1a", "a1", "", "a-", "_", "-_", "-\\31 ", "é", "a.b", "a#b", "a b", "0", "-0.5",
                             "a\\.b", "\\-", "-é", "a,b", "a]", "[", "a=b", "-\\-", "\\", "a\\ b", "A", "--1", "-\\0", "i", "a i"])
        else:
            av = "".join(rng.choice(QUOTE_ATOMS[q]) if rng.chance(0.1) else rng.choice(CHARS) for _ in range(rng.range(0, 4)))
        sel = "[x%s%s%s%s%s]" % (rng.choice(["=", "~=", "|=", "^=", "$=", "*="]), q, av, q, rng.choice(["", "", " i", " s"]))
        if rng.chance(0.3):
            sel = rng.choice(["a", ".b", ":not(%s)", ":is(a, %s)", "%s > b", "a %s%s"]).replace("%s", sel)
    else:
        sel = rng.choice(["a", ".é", "[x=%s]" % rng.choice(['"a b"', "'q'", '"é"']), "a::after"])
    out = "%s { %s }" % (sel, " ".join(decls))
    if rng.chance(0.2):
        out += '\n@import %s;' % rng.choice(['"a.css"', "url(b.css)", '"c" screen'])
    if rng.chance(0.2):
        out = '@font-face { font-family: "é"; src: url("x.woff"); }\n' + out
    return out


VALS = ["1", "0.5", "-0.25", "10px", "1.5em", "50%", "0", "1e3", "100000000000", "0.00001", "-0.0", "2 * 3px", "1 + 1",
        "math.div(10px, 4)", "red", "#abc", "#aabbccdd", "rgba(1, 2, 3, 0.5)", "hsl(120, 50%, 50%)", "transparent",
        "a", "bold", "sans-serif", "auto", "none", '"é"', '"a b"', "'q'", "url(x.png)", 'url("y z.png")', "foo(1, 2)",
        "translate(1px, 2px)", "var(--x)", "var(--x, 1px)", "calc(1px + 2%)", "calc(100% - 10px)", "min(1px, 2%)",
        "clamp(1px, 2%, 3em)", "1px 2px", "1px, 2px", "[a b]", "1px / 2px", "(1px 2px) (3px 4px)", "a, b c, d",
        "!important", "1px !important", "U+0025-00FF", "progid:foo.bar()", "#{a}b", "é", "🎉", "\\e9", "lighten(red, 10%)",
        "null", "()", "if(true, x, y)", "nth(a b c, 2)", "percentage(0.5)", "unquote(\"a\")", "1/2", "+1", "--1"]
SELS = ["a", ".b", "#c", "a.b", "a > b", "a + b", "a ~ b", "a b", "*", "[x]", "[x=y]", '[x="y z"]', "[x|=y i]", ":hover",
        "::before", ":not(.a)", ":is(a, .b)", ":nth-child(2n+1)", ":nth-child(odd of .x)", "a, b", "a,\nb", ".é", "é", ".\\31 x",
        "#\\#a", "&:hover", "& + &", "&-s", ".x &", "& > a", "%ph", "a:not(&)", "@at-root .r"]
MEDIA = ["screen", "print and (min-width: 100px)", "(min-width: 1px) and (max-width: 2px)", "not screen", "only screen and (color)",
         "screen, print", "(min-resolution: 2dppx)", "(width >= 600px)", "#{'screen'}"]


def supports_cond(rng, depth=0):
    """a random @supports condition: declarations, selector()/font-tech()-style functions, negation, conjunction and
    disjunction chains, nested groups (each nested condition in its own parentheses, as the grammar requires)"""
    def in_parens(d):
        k = rng.below(10)
        if d >= 3 or k < 5:
            return "(%s: %s)" % (rng.choice(["display", "a", "--v", "gap"]), rng.choice(["grid", "1px", "b c", "calc(1px + 1%)", "#{1 + 1}px"]))
        if k == 5:
            return rng.choice(["selector(a > b)", "selector(:focus-visible)", "font-tech(color-COLRv1)"])
        return "(%s)" % cond(d + 1)

    def cond(d):
        k = rng.below(10)
        if k < 3:
            return "not " + in_parens(d)
        if k < 6:
            return in_parens(d)
        op = " and " if k < 8 else " or "
        return op.join(in_parens(d) for _ in range(rng.range(2, 3)))
    return cond(depth)


def media_query_list(rng):
    """a random media query list over the Media Queries 4 grammar: optional not/only + type [+ and-chain of conditions],
    or a bare condition (feature, feature: value, range, negation, and-chain, or-chain, nested group)"""
    FEATS = ["(hover)", "(color)", "(min-width: 100px)", "(max-width: 20em)", "(width >= 600px)", "(400px <= width <= 700px)",
             "(min-resolution: 2dppx)", "(orientation: landscape)", "(min-width: #{10 * 10}px)", "(aspect-ratio: 16/9)"]

    def in_parens(d):
        k = rng.below(10)
        if d >= 2 or k < 7:
            return rng.choice(FEATS)
        return "(%s)" % cond(d + 1)

    def cond(d):
        k = rng.below(10)
        if k < 2:
            return "not " + in_parens(d)
        if k < 6:
            return in_parens(d)
        op = " and " if k < 8 else " or "
        return op.join(in_parens(d) for _ in range(rng.range(2, 3)))

    def query():
        k = rng.below(10)
        if k < 5:
            q = rng.choice(["", "", "not ", "only "]) + rng.choice(["screen", "print", "all", "#{'screen'}"])
            if rng.chance(0.2):
                return q + " and not " + in_parens(1)     # (a negation is only allowed as the sole condition after a type)
            for _ in range(rng.below(3)):
                q += " and " + in_parens(1)
            return q
        return cond(0)
    return ", ".join(query() for _ in range(rng.choice([1, 1, 1, 2, 3])))


def gen_clean_program(rng, depth=0, in_media=False, in_ph=False):
    """well-behaved Sass made of CSS-representable values, exercising every serializer path"""
    out = []
    for _ in range(rng.range(1, 4)):
        k = rng.below(16)
        if k < 7 or depth >= 3:
            sel = rng.choice(SELS)
            if depth == 0 and ("&" in sel):
                sel = sel.replace("&", "a")
            if sel.startswith("@at-root") and depth == 0:
                sel = ".r"
            body = []
            # (a rule that extends a placeholder it is itself nested in / named by makes the extension algorithm run
            # away — C10's known finding KF-C10-self-extend-blowup; such programs only cost watchdog time here)
            ph_here = in_ph or "%ph" in sel
            for _ in range(rng.range(0, 4)):
                j = rng.below(12)
                if j < 7:
                    body.append("%s: %s;" % (rng.choice(["color", "width", "margin", "font", "content", "x-y", "--v", "-moz-z", "filter"]), rng.choice(VALS)))
                elif j == 7:
                    body.append("font: { family: %s; size: %s; }" % (rng.choice(VALS), rng.choice(VALS)))
                elif j == 8:
                    body.append("/* c%d */" % rng.below(9))
                elif j == 9 and depth < 3:
                    body.append(gen_clean_program(rng, depth + 1, in_media, ph_here))
                elif j == 10 and not ph_here:
                    body.append("@extend %ph !optional;")
                else:
                    body.append("--custom: { a: b } %s;" % rng.choice(["x", "1px", '"s"']))
            out.append("%s { %s }" % (sel, " ".join(body)))
        elif k == 7 and not in_media:
            # (nested @media merging is C17's subject: re-merging on every pass is legitimate, so no @media in @media here)
            out.append("@media %s { %s }" % (rng.choice(MEDIA) if rng.chance(0.4) else media_query_list(rng), gen_clean_program(rng, depth + 1, True, in_ph)))
        elif k == 8:
            out.append("@supports %s { %s }" % (supports_cond(rng), gen_clean_program(rng, depth + 1, in_media, in_ph)))
        elif k == 9 and depth == 0:
            out.append("@keyframes k%d { from { a: %s; } 50%% { a: %s; } to { a: b; } }" % (rng.below(9), rng.choice(VALS), rng.choice(VALS)))
        elif k == 10 and depth == 0:
            out.append('@font-face { font-family: %s; src: url(a.woff) format("woff"); }' % rng.choice(['"F"', "G", '"é"']))
        elif k == 11 and depth == 0:
            out.append("@import %s;" % rng.choice(['"a.css"', "url(b.css)", '"c.css" screen', "url(d.css) supports(display: grid)", '"//x.com/e"']))
        elif k == 12:
            out.append("/* loud %s */" % rng.choice(["x", "é", "multi\n   line", "#{1 + 1}"]))
        elif k == 13:
            out.append("@unknown %s { a { b: c; } }" % rng.choice(["x", "(y: z)", '"q"']))
        elif k == 14 and depth == 0:
            out.append("@page :first { margin: %s; }" % rng.choice(VALS))
        else:
            out.append("%%ph { p: %s; }" % rng.choice(VALS))
    return "\n".join(out)


def sass_syntax(toks):
    """Sass-only syntax found in a CSS token stream (outside strings/urls/comments)."""
    found = []
    depth_sel = True
    n = len(toks)
    for i, t in enumerate(toks):
        k = t[0]
        if k == "at" and t[1].lower() in SASS_AT:
            found.append("@" + t[1])
        elif k == "delim" and t[1] == "$" and i + 1 < n and toks[i + 1][0] == "ident":
            found.append("$" + toks[i + 1][1])
        elif k == "hash" and False:
            pass
        elif k == "delim" and t[1] == "#" and i + 1 < n and toks[i + 1][0] == "{":
            found.append("#{")
    return found


def selector_sass(rules, found):
    for r in rules:
        if r.kind == "style":
            pre = r.prelude
            for i, t in enumerate(pre):
                if t[0] == "delim" and t[1] == "&":
                    found.append("& in selector " + cssread.serialize(pre)[:40])
                if t[0] == "delim" and t[1] == "%" and i + 1 < len(pre) and pre[i + 1][0] == "ident":
                    found.append("placeholder in selector " + cssread.serialize(pre)[:40])
        if r.kind in ("style", "at"):
            selector_sass(r.rules, found)


def check_output(sh, spec, res, source):
    """returns canonical blocks or None"""
    text = spec["text"]
    facts = {"input": text, "style": spec.get("style"), "charset": spec.get("charset", True), "source": source}
    rp = {"spec": spec}
    h = c06._h(text + str(spec.get("style")) + str(spec.get("charset")))
    if "ok_hex" in res:
        sh.violation("invalid-utf8:" + h, "output is not valid UTF-8: %s" % res["ok_hex"][:120], rp, facts)
        return None
    css = res["ok"]
    facts["output"] = css
    try:
        toks = cssread.tokenize(css)
        cssread.check_balance(toks)
        rules = cssread.parse(css.lstrip("﻿"))
    except cssread.CssError as e:
        sh.violation("malformed:" + h, "output is not well-formed CSS (%s)\ninput: %s\noutput: %s" % (e, text[:300], css[:300]),
                     rp, dict(facts, problem=str(e)))
        return None
    except RecursionError:
        sh.inconc("reader-recursion")
        return None
    found = sass_syntax(toks)
    selector_sass(rules, found)
    if found:
        sh.violation("sass-syntax:" + h, "Sass-only syntax in output: %s\ninput: %s\noutput: %s" % (found[:4], text[:300], css[:300]),
                     rp, dict(facts, found=found[:10]))
        return None
    nonascii = any(ord(c) > 127 for c in css.lstrip("﻿"))
    has_bom = css.startswith("﻿")
    has_charset = css.lstrip("﻿").startswith('@charset "UTF-8";')
    want = nonascii and spec.get("charset", True)
    comp = spec.get("style") == "compressed"
    ok = (has_bom == (want and comp)) and (has_charset == (want and not comp))
    if not ok:
        sh.violation("charset:" + h, "@charset/BOM rule broken (non-ascii=%s, allows_charset=%s, style=%s, bom=%s, @charset=%s)\ninput: %s\noutput: %r" % (
            nonascii, spec.get("charset", True), spec.get("style"), has_bom, has_charset, text[:300], css[:200]), rp, facts)
        return None
    blocks, _ = cssread.read(css, keep_comments=True)
    return _nonempty(blocks)


def _nonempty(blocks):
    """empty rules (no declarations) carry no rule/declaration/value: not part of the fixed point"""
    return [b for b in blocks if b[2] is None or len(b[2]) > 0]


def run_cases(sh, cases):
    """cases: list of (text, syntax, source)"""
    specs = []
    for text, syntax, source in cases:
        for style in ("expanded", "compressed"):
            for cs in (True, False):
                specs.append({"text": text, "syntax": syntax, "style": style, "charset": cs, "budgets": {"steps": 300000},
                              "_source": source})
    rs = sh.w.batch([{k: v for k, v in s.items() if not k.startswith("_")} for s in specs])
    second = []
    for s, r in zip(specs, rs):
        sh.ev()
        src = s.pop("_source")
        if "ok" not in r and "ok_hex" not in r:
            sh.count("first_compile_" + ("err" if "err" in r else "other"))
            continue
        blocks = check_output(sh, s, r, src)
        if blocks is None:
            continue
        sh.count("well_formed_outputs")
        if blocks:
            sh.nontrivial([s["text"], s["style"], s["charset"]])
        if "#{" in r["ok"]:
            # a CSS string that happens to contain `#{` is interpolation when re-read by a Sass parser:
            # outside the fixed-point domain (well-formedness checks above still applied)
            sh.count("reparse_skipped_output_contains_interpolation_marker")
            continue
        for syn in ("css", "scss"):
            second.append((s, r["ok"], blocks, syn, src))
    specs2 = [{"text": css, "syntax": syn, "style": s["style"], "charset": s["charset"], "budgets": {"steps": 300000}}
              for s, css, blocks, syn, src in second]
    rs2 = sh.w.batch(specs2)
    for (s, css, blocks, syn, src), r2 in zip(second, rs2):
        sh.ev()
        h = c06._h(s["text"] + str(s["style"]) + str(s["charset"]) + syn)
        facts = {"input": s["text"], "style": s["style"], "charset": s["charset"], "output": css, "reparse_as": syn, "source": src}
        if "ok" not in r2:
            if "panic" in r2 and r2["panic"].get("msg", "").startswith("VERIF-BUDGET"):
                sh.inconc("budget")
                continue
            if "timeout" in r2 or "died" in r2:
                sh.inconc("watchdog-or-death-on-reparse")
                continue
            why = (r2.get("err") or {}).get("msg") or str(r2)[:200]
            sh.violation("reparse-fails:%s:%s" % (syn, h), "output does not compile when fed back as %s: %s\ninput: %s\noutput: %s" % (
                syn, why, s["text"][:300], css[:300]), {"spec": s}, dict(facts, error=why))
            continue
        try:
            b2, _ = cssread.read(r2["ok"], keep_comments=True)
            b2 = _nonempty(b2)
        except (cssread.CssError, RecursionError) as e:
            sh.violation("reparse-malformed:%s:%s" % (syn, h), "second output malformed: %s" % e, {"spec": s}, facts)
            continue
        if b2 != blocks:
            d = c06._diff(json.dumps(blocks, ensure_ascii=False), json.dumps(b2, ensure_ascii=False))
            sh.violation("not-a-fixed-point:%s:%s" % (syn, h), "feeding the output back as %s changes it\ninput: %s\nfirst:  %s\nsecond: %s" % (
                syn, s["text"][:300], d[0], d[1]), {"spec": s}, dict(facts, second=r2["ok"]))
            continue
        sh.count("fixed_point_" + syn)


def run(sh):
    rng = sh.rng
    excl = exclusions()
    # several tests share one input text: an excluded input is excluded under every name
    excl_inputs = {it["input"] for it in corpus.items() if (it["file"] + "::" + it["name"]) in excl}
    items = [it for it in corpus.items() if it["kind"] == "test" and not it["ignored"]
             and "random(" not in it["input"] and "unique-id" not in it["input"]
             and it["input"] not in excl_inputs]
    sh.counters["corpus_items_in_domain"] = len(items)
    sh.counters["corpus_items_excluded_from_domain"] = len([1 for it in corpus.items() if it["kind"] == "test" and it["input"] in excl_inputs])
    mine = [it for i, it in enumerate(items) if i % sh.nshards == sh.shard]
    rng.shuffle(mine)     # a different part of the corpus first for every seed when the time share runs out
    for i in range(0, len(mine), 16):
        if sh.past(0.6):
            sh.count("corpus_items_skipped_time", len(mine) - i)
            break
        run_cases(sh, [(it["input"], it["spec"].get("syntax") or "scss", it["file"] + "::" + it["name"]) for it in mine[i:i + 16]])
    n = 0
    while not sh.expired():
        cases = []
        for _ in range(16):
            if rng.chance(0.4):
                t = gen_string_program(rng)
            else:
                t = '@use "sass:math";\n' + gen_clean_program(rng)
            cases.append((t, "scss", "generated"))
            if n < 2:
                sh.sample({"input": t})
                n += 1
        run_cases(sh, cases)
    if sh.tier == "thorough" and sh.shard == 0:
        miri_stage(sh)


def miri_stage(sh):
    """thorough: the serializer workload (string shapes x styles) under Miri; any UB report refutes,
    and the outputs must also be valid UTF-8 there"""
    from .. import miri
    rng = sh.rng
    nproc = 12
    per = []
    for p in range(nproc):
        reqs = []
        for i in range(10):
            t = gen_string_program(rng) if i % 3 else gen_clean_program(rng)
            reqs.append({"text": t, "style": "compressed" if (i + p) % 2 else "expanded", "charset": i % 4 != 0, "stack_mb": 8})
        per.append(reqs)
    res = miri.run(per)
    for reqs, r in zip(per, res):
        sh.count("miri_processes")
        if r["ub"]:
            sh.violation("miri-ub", "Miri reported undefined behaviour in the serializer workload:\n" + r["log"],
                         {"mode": "miri", "requests": reqs}, {"report": r["log"]})
            continue
        if r["rc"] != 0:
            sh.inconc("miri-exit-%s" % r["rc"])
            continue
        for q, resp in zip(reqs, r["responses"]):
            sh.ev()
            one = resp["results"][0][0]
            sh.count("miri_compilations")
            if "ok_hex" in one:
                sh.violation("invalid-utf8-under-miri", "output is not valid UTF-8", {"spec": q}, {"input": q["text"]})


def replay(sh, payload):
    spec = payload["replay"]["spec"]
    before = len(sh.violations) + sum(sh.known.values())
    # re-run the whole 4-config family of the input
    run_cases(sh, [(spec["text"], spec.get("syntax", "scss"), "replay")])
    for v in sh.violations.values():
        print(v["msg"][:500])
    return "violated" if len(sh.violations) + sum(sh.known.values()) > before else "held"
