"""C14 — list, map and string built-ins implement their documented semantics.
Oracle: vp/model/builtins.py (written from the sass-lang.com documentation, independent of grass); observations
are structural value dumps from the probe (not text); module functions must agree with their global aliases."""
from .. import probe
from ..model import builtins as B
from ..model import values as V

ID = "C14"
RULE = ("calls with generated arguments: lists of length 0-6 x {space, comma, slash, undecided} x {bracketed}; indices in "
        "[-8, 8] plus 1.5 and near-integers; strings over ASCII, precomposed and combining characters, astral and ZWJ "
        "sequences, quoted/unquoted/empty; maps with nested maps; wrongly typed and out-of-range arguments. Each call is "
        "made through the global name and (where it exists) the sass:list/map/string name. non-trivial = the call has a "
        "non-empty collection/string argument; distinct = distinct call texts.")
ASSUMPTIONS = ["error *status* is compared (a documented argument error must be an error), message wording is not",
               "the separator of lists with fewer than two elements is not compared (undecided)"]


def plan(tier):
    return {"budget_s": 50 if tier == "quick" else 450, "profiles": ["R"], "min_evaluations": 2000}


ATOMS = [V.num(1), V.num(2), V.num(3), V.num(-1), V.num(0), V.num(1.5), V.num(10, "px"), V.s("a"), V.s("b", False), V.s("c", False),
         V.s("a b"), V.s(""), V.TRUE, V.FALSE, V.NULL, V.s("é"), V.s("key", False)]
STRS = ["", "a", "abc", "hello world", "é", "é", "🎉", "a🎉b", "👨‍👩‍👧", "ÀÉ", "aé🎉éz", "  ", "a-b_c", "ABCdef", "ß", "ǅ", "12345678", "x,y,z", "a  b"]


def gen_atom(rng):
    return rng.choice(ATOMS)


def gen_list(rng, depth=0):
    n = rng.choice([0, 0, 1, 1, 2, 2, 3, 4, 6])
    items = [gen_value(rng, depth + 1) if rng.chance(0.2) and depth < 2 else gen_atom(rng) for _ in range(n)]
    if n == 0:
        sep = "undecided"
    elif n == 1:
        sep = rng.choice(["undecided", "comma", "comma", "slash"])
    else:
        sep = rng.choice(["space", "comma", "comma", "slash"])
    br = rng.chance(0.25)
    if n == 1 and sep == "undecided" and not br:
        sep = "comma"
    return V.lst(items, sep, br)


def gen_map(rng, depth=0):
    keys = rng.sample([V.s("a", False), V.s("b", False), V.s("c", False), V.num(1), V.num(2), V.s("a b"), V.TRUE, V.NULL, V.s("k", True)], rng.range(0, 4))
    pairs = []
    for k in keys:
        v = gen_map(rng, depth + 1) if depth < 2 and rng.chance(0.35) else gen_atom(rng)
        pairs.append((k, v))
    return V.mp(pairs)


def gen_str(rng):
    t = rng.choice(STRS)
    if rng.chance(0.2):
        t = t + rng.choice(STRS)
    q = rng.chance(0.7)
    if not q and (t == "" or not all(c.isalnum() or c in "-_" or ord(c) > 127 for c in t) or t[0].isdigit() or t[0] == "-"):
        q = True
    return V.s(t, q)


def gen_value(rng, depth=0):
    k = rng.below(10)
    if k < 4:
        return gen_atom(rng)
    if k < 7:
        return gen_list(rng, depth)
    if k < 9:
        return gen_map(rng, depth)
    return gen_str(rng)


def gen_index(rng):
    k = rng.below(12)
    if k < 9:
        return V.num(rng.range(-8, 8))
    if k == 9:
        return V.num(1.5)
    if k == 10:
        return V.num(rng.choice([1.0000000000001, 2.0000000000001, -0.9999999999999]))
    return rng.choice([V.s("a"), V.NULL, V.num(100), V.num(-100)])


def listish(rng):
    k = rng.below(10)
    if k < 7:
        return gen_list(rng)
    if k < 8:
        return gen_map(rng)
    return gen_atom(rng)


def mapish(rng):
    return gen_map(rng) if rng.chance(0.9) else rng.choice([V.lst([], "undecided"), V.num(1), V.lst([V.num(1)], "comma")])


def strish(rng):
    return gen_str(rng) if rng.chance(0.92) else rng.choice([V.num(1), V.NULL, V.lst([V.s("a")], "comma")])


def keys_of(rng, m, n):
    """mostly existing nested key paths"""
    path = []
    cur = m
    for _ in range(n):
        if cur[0] == "m" and cur[1] and rng.chance(0.8):
            k, v = rng.choice(cur[1])
            path.append(k)
            cur = v
        else:
            path.append(rng.choice([V.s("a", False), V.s("zz", False), V.num(1)]))
            cur = V.NULL
    return path


def gen_call(rng):
    """-> (global_name|None, module_name|None, [args as Sass text], thunk computing the model result)"""
    k = rng.below(30)
    L = lambda v: V.lit(v, False)
    if k == 0:
        a = listish(rng)
        return "length", "list.length", [L(a)], lambda: B.length(a)
    if k == 1:
        a, i = listish(rng), gen_index(rng)
        return "nth", "list.nth", [L(a), L(i)], lambda: B.nth(a, i)
    if k == 2:
        a, i, v = listish(rng), gen_index(rng), gen_value(rng)
        return "set-nth", "list.set-nth", [L(a), L(i), L(v)], lambda: B.set_nth(a, i, v)
    if k == 3:
        a, b = listish(rng), listish(rng)
        return "join", "list.join", [L(a), L(b)], lambda: B.join(a, b)
    if k == 4:
        a, b = listish(rng), listish(rng)
        sp = rng.choice(["comma", "space", "slash", "auto", "bogus"])
        return "join", "list.join", [L(a), L(b), "$separator: " + sp], lambda: B.join(a, b, V.s(sp, False))
    if k == 5:
        a, b = listish(rng), listish(rng)
        br = rng.choice(["true", "false", "auto", "null", "1"])
        brv = {"true": V.TRUE, "false": V.FALSE, "auto": V.s("auto", False), "null": V.NULL, "1": V.num(1)}[br]
        return "join", "list.join", [L(a), L(b), "$bracketed: " + br], lambda: B.join(a, b, None, brv)
    if k == 6:
        a, v = listish(rng), gen_value(rng)
        return "append", "list.append", [L(a), L(v)], lambda: B.append(a, v)
    if k == 7:
        a, v = listish(rng), gen_value(rng)
        sp = rng.choice(["comma", "space", "slash", "auto", "nope"])
        return "append", "list.append", [L(a), L(v), "$separator: " + sp], lambda: B.append(a, v, V.s(sp, False))
    if k == 8:
        ls = [listish(rng) for _ in range(rng.range(1, 3))]
        return "zip", "list.zip", [L(x) for x in ls], lambda: B.zip_(*ls)
    if k == 9:
        a = listish(rng)
        v = rng.choice(as_items(a)) if as_items(a) and rng.chance(0.7) else gen_value(rng)
        return "index", "list.index", [L(a), L(v)], lambda: B.index(a, v)
    if k == 10:
        a = listish(rng)
        return "list-separator", "list.separator", [L(a)], lambda: B.list_separator(a)
    if k == 11:
        a = listish(rng)
        return "is-bracketed", "list.is-bracketed", [L(a)], lambda: B.is_bracketed(a)
    if k == 12:
        m = mapish(rng)
        ks = keys_of(rng, m, 1)
        return "map-get", "map.get", [L(m), L(ks[0])], lambda: B.map_get(m, *ks)
    if k == 13:
        m = mapish(rng)
        ks = keys_of(rng, m, rng.range(2, 3))
        return None, "map.get", [L(m)] + [L(x) for x in ks], lambda: B.map_get(m, *ks)
    if k == 14:
        m = mapish(rng)
        ks = keys_of(rng, m, rng.range(1, 3))
        return ("map-has-key" if len(ks) == 1 else None), "map.has-key", [L(m)] + [L(x) for x in ks], lambda: B.map_has_key(m, *ks)
    if k == 15:
        m = mapish(rng)
        return "map-keys", "map.keys", [L(m)], lambda: B.map_keys(m)
    if k == 16:
        m = mapish(rng)
        return "map-values", "map.values", [L(m)], lambda: B.map_values(m)
    if k == 17:
        a, b = mapish(rng), mapish(rng)
        return "map-merge", "map.merge", [L(a), L(b)], lambda: B.map_merge(a, b)
    if k == 18:
        a, b = gen_map(rng), gen_map(rng)
        ks = keys_of(rng, a, rng.range(1, 2))
        return None, "map.merge", [L(a)] + [L(x) for x in ks] + [L(b)], lambda: B.map_merge(a, *(ks + [b]))
    if k == 19:
        m = mapish(rng)
        ks = keys_of(rng, m, 1) + ([gen_atom(rng)] if rng.chance(0.3) else [])
        return "map-remove", "map.remove", [L(m)] + [L(x) for x in ks], lambda: B.map_remove(m, *ks)
    if k == 20:
        m = gen_map(rng)
        ks = keys_of(rng, m, rng.range(1, 3))
        v = gen_value(rng)
        return None, "map.set", [L(m)] + [L(x) for x in ks] + [L(v)], lambda: B.map_set(m, *(ks + [v]))
    if k == 21:
        a, b = gen_map(rng), gen_map(rng)
        return None, "map.deep-merge", [L(a), L(b)], lambda: B.deep_merge(a, b)
    if k == 22:
        m = gen_map(rng)
        ks = keys_of(rng, m, rng.range(1, 3))
        return None, "map.deep-remove", [L(m)] + [L(x) for x in ks], lambda: B.deep_remove(m, *ks)
    if k == 23:
        s_ = strish(rng)
        return "str-length", "string.length", [L(s_)], lambda: B.str_length(s_)
    if k == 24:
        s_, a = strish(rng), gen_index(rng)
        if rng.chance(0.5):
            return "str-slice", "string.slice", [L(s_), L(a)], lambda: B.str_slice(s_, a)
        b = gen_index(rng)
        return "str-slice", "string.slice", [L(s_), L(a), L(b)], lambda: B.str_slice(s_, a, b)
    if k == 25:
        s_ = strish(rng)
        t = s_[1] if s_[0] == "s" else ""
        if t and rng.chance(0.7):
            i = rng.below(len(t))
            sub = V.s(t[i:i + rng.range(1, 3)])
        else:
            sub = gen_str(rng)
        return "str-index", "string.index", [L(s_), L(sub)], lambda: B.str_index(s_, sub)
    if k == 26:
        s_, ins = strish(rng), gen_str(rng)
        n = len(s_[1]) if s_[0] == "s" else 0
        i = V.num(rng.range(-n - 1, n + 2)) if rng.chance(0.85) else gen_index(rng)
        return "str-insert", "string.insert", [L(s_), L(ins), L(i)], lambda: B.str_insert(s_, ins, i)
    if k == 27:
        s_ = strish(rng)
        f = rng.choice(["quote", "unquote", "to-upper-case", "to-lower-case"])
        return f, "string." + f, [L(s_)], lambda: {"quote": B.quote, "unquote": B.unquote, "to-upper-case": B.to_upper_case, "to-lower-case": B.to_lower_case}[f](s_)
    if k == 28:
        s_ = gen_str(rng)
        t = s_[1]
        sp = V.s(rng.choice(["", ",", " ", "a", "é", "🎉", "ab", t[:1] or "x"]))
        if rng.chance(0.5):
            return None, "string.split", [L(s_), L(sp)], lambda: B.split(s_, sp)
        lim = V.num(rng.choice([1, 2, 3, 0, -1, 1.5]))
        return None, "string.split", [L(s_), L(sp), "$limit: " + L(lim)], lambda: B.split(s_, sp, lim)
    # arity errors: surplus / missing arguments
    f, m = rng.choice([("length", "list.length"), ("nth", "list.nth"), ("str-length", "string.length"), ("map-keys", "map.keys")])
    if rng.chance(0.5):
        return f, m, [], lambda: (_ for _ in ()).throw(B.SassErr("missing argument"))
    return f, m, ["1", "2", "3", "4"], lambda: (_ for _ in ()).throw(B.SassErr("too many arguments"))


# documented parameter names (sass-lang.com/documentation/modules); `None` = a rest parameter (never named here)
PARAMS = {
    "length": ["list"], "nth": ["list", "n"], "set-nth": ["list", "n", "value"],
    "join": ["list1", "list2", "separator", "bracketed"], "append": ["list", "val", "separator"],
    "index": ["list", "value"], "list-separator": ["list"], "is-bracketed": ["list"],
    "map-get": ["map", "key"], "map-has-key": ["map", "key"], "map-keys": ["map"], "map-values": ["map"],
    "map-merge": ["map1", "map2"],     # (map.remove is documented as ($map, $keys...): its keys are never named)
    "str-length": ["string"], "str-slice": ["string", "start-at", "end-at"], "str-index": ["string", "substring"],
    "str-insert": ["string", "insert", "index"], "quote": ["string"], "unquote": ["string"],
    "to-upper-case": ["string"], "to-lower-case": ["string"], "string.split": ["string", "separator", "limit"],
    "map.deep-merge": ["map1", "map2"],
}


def name_args(rng, fname, args):
    """the same call with its trailing k arguments passed by their documented names (`_`/`-` spelling varied)"""
    ps = PARAMS.get(fname)
    if not ps or not args or len(args) > len(ps) or any(a.startswith("$") for a in args):
        return None
    k = rng.range(1, len(args))
    out = list(args[:len(args) - k])
    named = []
    for i in range(len(args) - k, len(args)):
        pn = ps[i] if rng.chance(0.8) else ps[i].replace("-", "_")
        named.append("$%s: %s" % (pn, args[i]))
    if rng.chance(0.3):
        rng.shuffle(named)
    return out + named


def as_items(v):
    return V.as_list(v)


def run(sh):
    rng = sh.rng
    n = 0
    while not sh.expired():
        calls = []
        for _ in range(150):
            g, m, args, thunk = gen_call(rng)
            try:
                want = ("ok", thunk())
            except B.SassErr as e:
                want = ("err", str(e))
            except (IndexError, TypeError, KeyError, ValueError) as e:
                continue  # model does not cover this argument shape
            if rng.chance(0.2):
                na = name_args(rng, g or m, args)
                if na is not None:
                    args = na
                    sh.count("calls_with_named_arguments")
            calls.append((g, m, args, want))
        exprs = []
        expect_err = []
        for g, m, args, want in calls:
            for name in (g, m):
                if name:
                    exprs.append("%s(%s)" % (name, ", ".join(args)))
                    expect_err.append(want[0] == "err")
        # expressions expected to fail are compiled one by one; the others share one stylesheet
        ok_idx = [i for i, e in enumerate(expect_err) if not e]
        er_idx = [i for i, e in enumerate(expect_err) if e]
        got = [None] * len(exprs)
        for i, r in zip(ok_idx, probe.eval_many(sh.w, [exprs[i] for i in ok_idx])):
            got[i] = r
        for i, r in zip(er_idx, probe.eval_each(sh.w, [exprs[i] for i in er_idx])):
            got[i] = r
        gi = 0
        for g, m, args, want in calls:
            obs = {}
            for name in (g, m):
                if name:
                    obs[name] = (exprs[gi], got[gi])
                    gi += 1
            for name, (e, r) in obs.items():
                sh.ev()
                if r[0] == "panic":
                    sh.violation("panic:" + e, "panic in `%s`: %s" % (e, r[1]), {"expr": e}, {"expr": e})
                    continue
                if want[0] == "err":
                    if r[0] != "err":
                        sh.violation("error-expected:" + e, "`%s` should be an argument error (%s) but returned %s" % (e, want[1], _show(r)), {"expr": e}, {"expr": e, "want": want[1]})
                    else:
                        sh.count("agree_error")
                    continue
                if r[0] != "ok":
                    sh.violation("unexpected-error:" + e, "`%s` failed (%s); documented result is %s" % (e, r[1][:120], V.lit(want[1])), {"expr": e}, {"expr": e, "error": r[1][:200]})
                    continue
                have = V.from_dump(r[1])
                if not V.same(have, want[1]):
                    sh.violation("wrong-result:" + e, "`%s` = %s; documented result is %s" % (e, _lit(have), V.lit(want[1])), {"expr": e}, {"expr": e, "got": _lit(have), "want": V.lit(want[1])})
                else:
                    sh.count("agree_value")
                    sh.nontrivial(e)
            if len(obs) == 2:
                (e1, r1), (e2, r2) = obs.values()
                if (r1[0] == "ok") != (r2[0] == "ok") or (r1[0] == "ok" and r1[1] != r2[1]):
                    sh.violation("alias-differs:" + e1, "`%s` and `%s` differ: %s vs %s" % (e1, e2, _show(r1), _show(r2)), {"exprs": [e1, e2]}, {"a": e1, "b": e2})
                else:
                    sh.count("alias_pairs_agree")
        if n < 3 and calls:
            g, m, args, want = calls[0]
            sh.sample({"call": "%s(%s)" % (g or m, ", ".join(args)), "model": (want[0], V.lit(want[1]) if want[0] == "ok" else want[1])})
            n += 1


def _lit(v):
    try:
        return V.lit(v)
    except Exception:
        return str(v)


def _show(r):
    if r[0] == "ok":
        return _lit(V.from_dump(r[1]))
    return "%s: %s" % (r[0], str(r[1])[:100])


def replay(sh, payload):
    r = payload["replay"]
    for e in ([r["expr"]] if "expr" in r else r.get("exprs", [])):
        print(e, "->", [_show(x) for x in probe.eval_many(sh.w, [e])])
    return "see output"
