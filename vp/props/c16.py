"""C16 — calc()/min()/max()/clamp() simplification preserves the computed value.
Oracle: an independent evaluator computes the quantity of the *source* expression (from the generator's AST) and
of the *emitted* text (parsed from the output with its own precedence/parenthesis/sign handling) under several
random unit environments; the two must agree; shape rules (plain number iff all operands mutually convertible)
and rejection of provably incompatible operands are checked too."""
import math
import re

ID = "C16"
RULE = ("random calculation trees up to depth 4 over + - * / with numbers in px/em/rem/%/vw/deg/s/unitless (negatives "
        "included), nested calc/min/max/clamp, Sass variables and interpolation as operands, both output styles, printed either "
        "fully parenthesised or with the fewest parentheses that keep the tree (`a / b / c`, `a - b + c`); each is "
        "evaluated under 8 random unit environments. non-trivial = at least one operator and one relative unit or nested "
        "function; distinct = distinct expression texts.")
ASSUMPTIONS = ["relative tolerance 2e-6 on quantities (emitted numbers are rounded to 10 digits in their own unit); `%`, em, rem, vw are opaque lengths with a random px value per environment",
               "generator only builds dimensionally meaningful expressions for the positive cases (same dimension for + -, min/max/clamp arguments; a dimensionless side for * and a dimensionless non-zero divisor)"]

LEN_REL = ["em", "rem", "%", "vw"]
ABS = {"px": ("len", 1.0), "in": ("len", 96.0), "cm": ("len", 96.0 / 2.54), "deg": ("ang", 1.0), "turn": ("ang", 360.0), "s": ("time", 1.0), "ms": ("time", 0.001)}


def plan(tier):
    return {"budget_s": 45 if tier == "quick" else 400, "profiles": ["R"], "min_evaluations": 2000}


def num_text(x):
    s = ("%.6f" % x).rstrip("0").rstrip(".")
    return s if s not in ("-0", "") else "0"


class Gen:
    def __init__(self, rng):
        self.rng = rng
        self.vars = []
        self.mode = "plain"

    def leaf(self, dim):
        rng = self.rng
        mag = rng.choice([1, 2, 3, 10, 0.5, 1.5, 7, 100, 0.25]) * (-1 if rng.chance(0.25) else 1)
        if dim == "none":
            unit = ""
        elif dim == "len":
            unit = rng.choice(["px", "px", "in", "cm"] + LEN_REL + LEN_REL)
        elif dim == "ang":
            unit = rng.choice(["deg", "turn"])
        else:
            unit = rng.choice(["s", "ms"])
        node = ("num", float(mag), unit)
        k = rng.below(5)
        if k == 0 and self.mode == "var":
            name = "v%d" % len(self.vars)
            self.vars.append((name, node))
            return ("var", name, node)
        if k == 0 and self.mode == "interp":
            return ("interp", node)
        return node

    def tree(self, dim, depth):
        rng = self.rng
        if depth <= 0 or rng.chance(0.25):
            return self.leaf(dim)
        k = rng.below(10)
        if k < 4:
            return (rng.choice(["+", "-"]), self.tree(dim, depth - 1), self.tree(dim, depth - 1))
        if k < 6:
            if rng.chance(0.5):
                return ("*", self.tree(dim, depth - 1), self.const_none(depth - 1))
            return ("*", self.const_none(depth - 1), self.tree(dim, depth - 1))
        if k == 6:
            return ("/", self.tree(dim, depth - 1), self.const_none(depth - 1, nonzero=True))
        if k == 7:
            return (rng.choice(["min", "max"]), [self.tree(dim, depth - 1) for _ in range(rng.range(1, 3))])
        if k == 8:
            return ("clamp", [self.tree(dim, depth - 1) for _ in range(3)])
        return ("calc", self.tree(dim, depth - 1))

    def const_none(self, depth, nonzero=False):
        """dimensionless subtree made of plain numbers (value known), optionally non-zero"""
        rng = self.rng
        for _ in range(20):
            if depth <= 0 or rng.chance(0.5):
                t = ("num", float(rng.choice([2, 3, 0.5, 4, -2, 10, 1.5])), "")
            else:
                t = (rng.choice(["+", "-", "*"]), self.const_none(depth - 1), self.const_none(depth - 1))
            v = ev(t, {})
            if not nonzero or abs(v[0]) > 1e-6:
                return t
        return ("num", 2.0, "")


def render(t, top=False):
    k = t[0]
    if k == "num":
        return num_text(t[1]) + t[2]
    if k == "var":
        return "$" + t[1]
    if k == "interp":
        return "#{%s}" % render(t[1])
    if k in "+-*/":
        return "(%s %s %s)" % (render(t[1]), k, render(t[2]))
    if k in ("min", "max", "clamp"):
        return "%s(%s)" % (k, ", ".join(render(a) for a in t[1]))
    if k == "calc":
        return "calc(%s)" % render(t[1])
    raise ValueError(k)


_PREC = {"+": 1, "-": 1, "*": 2, "/": 2}


def render_min(t):
    """like render(), but with the fewest parentheses that keep the tree: operator precedence and left associativity
    carry the structure (`a / b / c`, `a - b + c`, `a / b * c`), so the calculation parser's own grouping is exercised"""
    k = t[0]
    if k in _PREC:
        l, r = t[1], t[2]
        ls, rs = render_min(l), render_min(r)
        if l[0] in _PREC and _PREC[l[0]] < _PREC[k]:
            ls = "(%s)" % ls
        if r[0] in _PREC and (_PREC[r[0]] < _PREC[k] or (_PREC[r[0]] == _PREC[k] and k in "-/") or (_PREC[r[0]] == _PREC[k] and r[0] != k)):
            rs = "(%s)" % rs
        return "%s %s %s" % (ls, k, rs)
    if k in ("min", "max", "clamp"):
        return "%s(%s)" % (k, ", ".join(render_min(a) for a in t[1]))
    if k == "calc":
        return "calc(%s)" % render_min(t[1])
    return render(t)


def unit_val(u, env):
    """(dimension vector, factor)"""
    if u == "":
        return {}, 1.0
    if u in ABS:
        d, f = ABS[u]
        return {d: 1}, f
    if u in env:
        return {"len": 1}, env[u]
    raise KeyError(u)


def dims_add(a, b, s):
    out = dict(a)
    for k, v in b.items():
        out[k] = out.get(k, 0) + s * v
    return {k: v for k, v in out.items() if v}


class Incompat(Exception):
    pass


def ev(t, env):
    """-> (value, dims)"""
    k = t[0]
    if k == "num":
        d, f = unit_val(t[2], env)
        return t[1] * f, d
    if k == "var":
        return ev(t[2], env)
    if k == "interp":
        return ev(t[1], env)
    if k == "calc":
        return ev(t[1], env)
    if k in "+-":
        a, b = ev(t[1], env), ev(t[2], env)
        if a[1] != b[1]:
            raise Incompat()
        return (a[0] + b[0] if k == "+" else a[0] - b[0]), a[1]
    if k == "*":
        a, b = ev(t[1], env), ev(t[2], env)
        return a[0] * b[0], dims_add(a[1], b[1], 1)
    if k == "/":
        a, b = ev(t[1], env), ev(t[2], env)
        if b[0] == 0:
            raise ZeroDivisionError()
        return a[0] / b[0], dims_add(a[1], b[1], -1)
    if k in ("min", "max"):
        vs = [ev(a, env) for a in t[1]]
        if any(v[1] != vs[0][1] for v in vs):
            raise Incompat()
        return (min if k == "min" else max)(v[0] for v in vs), vs[0][1]
    if k == "clamp":
        lo, v, hi = (ev(a, env) for a in t[1])
        if lo[1] != v[1] or hi[1] != v[1]:
            raise Incompat()
        return max(lo[0], min(v[0], hi[0])), v[1]
    raise ValueError(k)


# ---- parser for the emitted text (independent of the generator's AST)
TOK = re.compile(r"\s*(?:(?P<num>[+-]?(?:\d+\.?\d*|\.\d+)(?:[eE][+-]?\d+)?)(?P<unit>[a-zA-Z%]+)?|(?P<fn>[a-z]+)\(|(?P<op>[-+*/(),]))")


def tokenize(s):
    out = []
    i = 0
    s = s.strip()
    while i < len(s):
        if s[i].isspace():
            i += 1
            out.append(("ws",))
            continue
        m = TOK.match(s, i)
        if not m or m.end() == i:
            raise ValueError("cannot tokenize %r at %d" % (s, i))
        # a sign directly attached to a number is only a sign after an operator/paren/start (or whitespace before and none after)
        if m.group("num") is not None:
            txt = m.group("num")
            prev = [t for t in out if t[0] != "ws"]
            prev = prev[-1] if prev else None
            if txt[0] in "+-" and prev is not None and prev[0] in ("num", ")"):
                # binary operator
                out.append(("op", txt[0]))
                i = m.start("num") + 1
                continue
            out.append(("num", float(txt), m.group("unit") or ""))
        elif m.group("fn"):
            out.append(("fn", m.group("fn")))
        else:
            o = m.group("op")
            out.append((")",) if o == ")" else (("(",) if o == "(" else (("," ,) if o == "," else ("op", o))))
        i = m.end()
    return [t for t in out if t[0] != "ws"]


class P:
    def __init__(self, toks):
        self.t = toks
        self.i = 0

    def peek(self):
        return self.t[self.i] if self.i < len(self.t) else None

    def next(self):
        t = self.peek()
        self.i += 1
        return t

    def expr(self):
        n = self.term()
        while self.peek() and self.peek()[0] == "op" and self.peek()[1] in "+-":
            op = self.next()[1]
            n = (op, n, self.term())
        return n

    def term(self):
        n = self.factor()
        while self.peek() and self.peek()[0] == "op" and self.peek()[1] in "*/":
            op = self.next()[1]
            n = (op, n, self.factor())
        return n

    def factor(self):
        t = self.next()
        if t is None:
            raise ValueError("unexpected end")
        if t[0] == "num":
            return ("num", t[1], t[2])
        if t[0] == "(":
            n = self.expr()
            if self.next() != (")",):
                raise ValueError("expected )")
            return n
        if t[0] == "op" and t[1] == "-":
            return ("*", ("num", -1.0, ""), self.factor())
        if t[0] == "fn":
            args = [self.expr()]
            while self.peek() == (",",):
                self.next()
                args.append(self.expr())
            if self.next() != (")",):
                raise ValueError("expected ) after args")
            if t[1] == "calc":
                return ("calc", args[0])
            if t[1] in ("min", "max"):
                return (t[1], args)
            if t[1] == "clamp":
                return ("clamp", args)
            raise ValueError("unknown function " + t[1])
        raise ValueError("unexpected token %r" % (t,))


def parse_out(text):
    p = P(tokenize(text))
    n = p.expr()
    if p.peek() is not None:
        raise ValueError("trailing tokens")
    return n


def inverted_clamp(t, env):
    """does the tree contain a clamp whose MIN exceeds its MAX under env?"""
    k = t[0]
    if k == "num":
        return False
    if k == "var":
        return inverted_clamp(t[2], env)
    if k in ("interp", "calc"):
        return inverted_clamp(t[1], env)
    if k in "+-*/":
        return inverted_clamp(t[1], env) or inverted_clamp(t[2], env)
    if k == "clamp":
        try:
            lo, hi = ev(t[1][0], env), ev(t[1][2], env)
            if lo[0] > hi[0]:
                return True
        except (Incompat, ZeroDivisionError, KeyError):
            pass
    return any(inverted_clamp(a, env) for a in t[1])


def leaves(t):
    k = t[0]
    if k == "num":
        return [t[2]]
    if k in ("var",):
        return leaves(t[2])
    if k in ("interp", "calc"):
        return leaves(t[1])
    if k in "+-*/":
        return leaves(t[1]) + leaves(t[2])
    return [u for a in t[1] for u in leaves(a)]


def has_interp(t):
    k = t[0]
    if k == "interp":
        return True
    if k == "num":
        return False
    if k == "var":
        return False
    if k == "calc":
        return has_interp(t[1])
    if k in "+-*/":
        return has_interp(t[1]) or has_interp(t[2])
    return any(has_interp(a) for a in t[1])


def run(sh):
    rng = sh.rng
    n = 0
    while not sh.expired():
        cases = []
        decls = []
        pre = []
        g = Gen(rng)
        for i in range(60):
            dim = rng.choice(["len", "len", "len", "ang", "time", "none"])
            g.mode = rng.choice(["plain", "var", "interp"])
            t = g.tree(dim, rng.range(1, 4))
            if t[0] in ("num", "var", "interp"):
                t = ("calc", t)
            if rng.chance(0.5):
                txt = render(t)
                if t[0] in "+-*/":
                    txt = "calc" + txt
            else:
                txt = render_min(t)
                if t[0] in "+-*/":
                    txt = "calc(%s)" % txt
                sh.count("cases_with_minimal_parentheses")
            cases.append((t, txt))
            decls.append("p%d: %s;" % (i, txt))
        for name, node in g.vars:
            pre.append("$%s: %s;" % (name, render(node)))
        style = rng.choice(["expanded", "compressed"])
        src = "\n".join(pre) + "\na {\n" + "\n".join(decls) + "\n}"
        res = sh.w.compile({"text": src, "style": style})
        if "ok" not in res:
            # some case is rejected: run each alone
            rs = sh.w.batch([{"text": "\n".join(pre) + "\na { p0: %s; }" % txt, "style": style} for t, txt in cases])
            outs = []
            for r in rs:
                m = re.search(r"p0:\s*([^;}]+)", r.get("ok") or "") if "ok" in r else None
                outs.append((m.group(1).strip() if m else None, r))
        else:
            printed = dict(re.findall(r"p(\d+):\s*([^;}]+)", res["ok"]))
            outs = [(printed.get(str(i), "").strip() or None, res) for i in range(len(cases))]
        for (t, txt), (out, r) in zip(cases, outs):
            sh.ev()
            facts = {"expr": txt, "style": style, "output": out, "vars": pre}
            rp = {"src": "\n".join(pre) + "\na { p0: %s; }" % txt, "style": style}
            if "panic" in r:
                sh.violation("panic:" + txt, "panic simplifying `%s`: %s" % (txt, r["panic"]), rp, facts)
                continue
            if out is None:
                msg = (r.get("err") or {}).get("msg") or str(r)[:200]
                sh.violation("rejected:" + txt, "dimensionally valid calculation rejected: `%s` -> %s" % (txt, msg), rp, dict(facts, error=msg))
                continue
            try:
                po = parse_out(out)
            except (ValueError, KeyError) as e:
                sh.violation("unparseable-output:" + txt, "`%s` -> `%s`: cannot parse (%s)" % (txt, out, e), rp, facts)
                continue
            bad = None
            inv = False
            for trial in range(8):
                env = {"em": 5 + 20 * rng.random(), "rem": 5 + 20 * rng.random(), "%": 1 + 5 * rng.random(), "vw": 3 + 10 * rng.random()}
                inv = inv or inverted_clamp(t, env)
                try:
                    a = ev(t, env)
                    b = ev(po, env)
                except (Incompat, ZeroDivisionError, KeyError) as e:
                    bad = "output not evaluable (%s)" % type(e).__name__
                    break
                if a[1] != b[1] and not (abs(a[0]) < 1e-12 and abs(b[0]) < 1e-12):
                    bad = "dimension changed: %s -> %s" % (a[1], b[1])
                    break
                # emitted numbers carry 10 fractional digits in *their* unit (e.g. 0.5e-10 turn = 1.8e-8 deg),
                # and sit under multiplications: compare with a tolerance far above that and far below any
                # parenthesisation/sign/precedence error
                if abs(a[0] - b[0]) > 2e-6 * max(1.0, abs(a[0]), abs(b[0])):
                    bad = "value %r became %r under %s" % (a[0], b[0], {k: round(v, 3) for k, v in env.items()})
                    break
            if bad:
                sh.violation("value-changed:" + txt, "`%s` -> `%s`: %s" % (txt, out, bad), rp, dict(facts, problem=bad, clamp_min_exceeds_max=inv))
                continue
            lv = leaves(t)
            all_abs = all(u == "" or u in ABS for u in lv)
            is_plain = po[0] == "num"
            if all_abs and not is_plain and not has_interp(t):
                sh.violation("not-simplified:" + txt, "`%s` has only mutually convertible operands but stays `%s`" % (txt, out), rp, facts)
                continue
            sh.count("agree_plain_number" if is_plain else "agree_calculation")
            if any(u in LEN_REL for u in lv) or "min" in txt or "max" in txt or "clamp" in txt:
                sh.nontrivial(txt + style)
            if n < 3:
                sh.sample({"expr": txt, "style": style, "output": out})
                n += 1
        # provably incompatible operands must be rejected
        bads = []
        for _ in range(12):
            a = rng.choice(["1px", "2in", "3deg", "4s", "6em", "7vw"])
            b = rng.choice(["1s", "2deg", "3px", "4ms", "1turn"])
            if unit_val(a[1:], {"%": 1, "em": 1, "vw": 1, "rem": 1})[0] == unit_val(b[1:], {})[0]:
                continue
            bads.append(rng.choice(["calc(%s + %s)", "calc(%s - %s)", "min(%s, %s)", "max(%s, %s)", "clamp(%s, %s, 1px)", "calc((%s + %s) * 2)"]) % (a, b))
        # n-ary family: min/max/clamp with two to four arguments of which exactly two are provably incompatible (different
        # real dimensions), at any positions, next to arguments that are compatible with anything (%, relative lengths only
        # beside lengths, unknown units) -- every pair has to be looked at, not only pairs with the first argument
        DIM = {"length": ["1px", "2in", "3cm"], "angle": ["3deg", "1turn"], "time": ["4s", "5ms"], "frequency": ["2Hz"], "resolution": ["2dppx"]}
        for _ in range(16):
            d1, d2 = rng.sample(sorted(DIM), 2)
            a, b = rng.choice(DIM[d1]), rng.choice(DIM[d2])
            fn = rng.choice(["min", "max", "clamp"])
            n_args = 3 if fn == "clamp" else rng.range(2, 4)
            # (no unitless arguments: next to numbers with units they select the legacy min()/max() functions, in which
            # a unitless number is comparable with everything -- another code path with other rules)
            neutral = ["10%", "2foo", "10%", "1em" if "length" in (d1, d2) else "3%"]
            args = [a, b] + [rng.choice(neutral) for _ in range(n_args - 2)]
            rng.shuffle(args)
            e = "%s(%s)" % (fn, ", ".join(args))
            if rng.chance(0.25):
                e = rng.choice(["calc(1%% + %s)", "max(%s, 1%%)", "calc(%s * 2)"]) % e
            bads.append(e)
        rs = sh.w.batch([{"text": "a { b: %s; }" % e} for e in bads])
        for e, r in zip(bads, rs):
            sh.ev()
            if "panic" in r:
                sh.violation("panic:" + e, "panic: %s" % r["panic"], {"src": "a { b: %s; }" % e}, {"expr": e})
            elif "err" not in r:
                sh.violation("incompatible-accepted:" + e, "`%s` (provably incompatible units) compiled to %s" % (e, (r.get("ok") or "")[:100]),
                             {"src": "a { b: %s; }" % e}, {"expr": e, "output": r.get("ok")})
            else:
                sh.count("incompatible_rejected")
        # arguments that cannot be compared at compile time (unitless next to lengths, absolute next to relative
        # lengths, mixed dimensions in one min/max/clamp): whatever the compiler decides (error, the function kept as it
        # is, or the legacy folding of unitless operands), it must decide it: a panic refutes. (Which of these it chooses
        # is not judged: CSS gives such calls no value to preserve.)
        mixed = []
        for _ in range(12):
            pool = ["1", "2px", "3em", "4%", "0.5", "10vw", "2in", "1rem", "3", "1deg", "2s", "calc(1px + 1%)", "var(--x)"]
            fn = rng.choice(["min", "max", "clamp", "clamp"])
            args = [rng.choice(pool) for _ in range(3 if fn == "clamp" else rng.range(2, 4))]
            kinds = {("none" if a[-1].isdigit() else a.lstrip("0123456789.")) for a in args if not a.startswith(("calc", "var"))}
            if len(kinds) < 2:
                continue
            mixed.append("%s(%s)" % (fn, ", ".join(args)))
        rs = sh.w.batch([{"text": "a { b: %s; }" % e} for e in mixed])
        for e, r in zip(mixed, rs):
            sh.ev()
            if "panic" in r:
                sh.violation("panic:" + e, "panic: %s" % r["panic"], {"src": "a { b: %s; }" % e}, {"expr": e})
            elif "ok" in r:
                sh.count("mixed_arguments_compiled")
            else:
                sh.count("mixed_arguments_rejected")


def replay(sh, payload):
    r = payload["replay"]
    print(r["src"])
    print(sh.w.compile({"text": r["src"], "style": r.get("style", "expanded")}))
    return "see output"
