"""C10 — @extend makes extenders match wherever the target matched, nothing else.
Oracle: DOM truth (vp/sel.py). The *credited* semantics is computed on the SOURCE selectors by the monitor: an
element counts as matching target T iff it matches T natively or matches (credited) an extender of T (least fixed
point, so chains and cycles work). Every rewritten selector read from the output is judged on all DOM forests with
<= 3 elements over the features of the case."""
import re

from .. import cssread, sel
from ..gen import selectors as G

ID = "C10"
RULE = ("stylesheets of 2-5 rules over a per-case alphabet (types, classes, ids, attribute, pseudo-class, pseudo-element, "
        "placeholder; combinators; <= 3 compounds; 1-2 complex selectors per list) with 1-3 @extend directives (simple, "
        "compound and complex extenders; one case in five is a transitive chain of 3-5 single-compound extenders with the target rules placed anywhere, "
        "one in six a list holding the same target behind the same left-hand side with two different combinators; "
        "compound and complex extenders; chains, cycles, self extension, targets inside :not()/:is()), compiled in source "
        "order and in reversed order; plus the @media / !optional / missing-target families. Judged: soundness, "
        "completeness for single-compound extenders, first law, second law (specificity), no placeholder in output, "
        "order independence, media confinement, missing-target errors. non-trivial = at least one selector was actually "
        "rewritten; distinct = distinct stylesheet texts.")
ASSUMPTIONS = ["opaque features for attribute selectors / argument-less pseudo-classes; one type, <= 1 id, <= 1 pseudo-element per element",
               "completeness is only demanded when every extender is a single compound selector and no unification conflict is possible under these labelings"]


def plan(tier):
    return {"budget_s": 50 if tier == "quick" else 700, "profiles": ["R"], "min_evaluations": 200, "params": {"nodes": 3 if tier == "quick" else 4}}


def gen_sheet(rng):
    al = G.alphabet(rng, rng.range(3, 4))
    targets = [x for x in al if not x.startswith("::")]
    ph = rng.chance(0.4)
    if ph:
        targets = targets + ["%p"]
    k = rng.range(2, 5)
    rules = []
    for i in range(k):
        if ph and rng.chance(0.25):
            s = rng.choice(["%p", "%p " + G.compound(rng, al), G.compound(rng, al) + "%p", "a %p"])
        else:
            s = G.selector_list(rng, al) if rng.chance(0.5) else G.complex_(rng, al)
        rules.append({"sel": s, "extends": []})
    n_ext = rng.range(1, 3)
    for _ in range(n_ext):
        r = rng.choice(rules)
        t = rng.choice(targets)
        # an extender whose own selector contains its target (self extension) is kept rare: with two such targets
        # grass's output explodes (known finding KF-C10-self-extend-blowup) and every such case costs a watchdog
        if t in r["sel"] and not rng.chance(0.04):
            continue
        if (t, False) not in r["extends"]:
            r["extends"].append((t, False))
    if not any(r["extends"] for r in rules):
        cands = [(r, t) for r in rules for t in targets if t not in r["sel"]]
        if cands:
            r, t = rng.choice(cands)
            r["extends"].append((t, False))
    return al, rules


def gen_chain(rng):
    """transitive chains of single-compound extenders (x1 extends x0, x2 extends x1, ...) with the rules that mention
    the targets placed anywhere, also after all @extends: completeness is judged on these"""
    al = G.alphabet(rng, rng.range(3, 4))
    names = [x for x in al if not x.startswith("::")]
    rng.shuffle(names)
    n = rng.range(3, min(5, len(names))) if len(names) >= 3 else len(names)
    chain = names[:n]
    rules = []
    for i in range(1, len(chain)):
        extra = rng.choice(names)
        own = chain[i] if (rng.chance(0.8) or extra[0].isalpha() or extra in chain) else chain[i] + extra
        rules.append({"sel": own, "extends": [(chain[i - 1], False)]})
    if rng.chance(0.3):
        rng.shuffle(rules)
    for _ in range(rng.range(1, 2)):
        t = rng.choice(chain[:2])
        s = rng.choice([t, t + " " + rng.choice(names), rng.choice(names) + " > " + t, t + ", " + rng.choice(names)])
        rules.insert(rng.below(len(rules) + 1) if rng.chance(0.5) else len(rules), {"sel": s, "extends": []})
    return al, rules[:6]


def gen_combinators(rng):
    """one target behind the same left-hand side with two different combinators in one selector list (the trimming of
    generated selectors compares exactly such pairs), extended by a single-compound extender: completeness is judged"""
    al = G.alphabet(rng, rng.range(3, 4))
    names = [x for x in al if not x.startswith("::")]
    rng.shuffle(names)
    if len(names) < 3:
        return gen_sheet(rng)
    L, T, E = names[0], names[1], names[2]
    combs = [" ", " > ", " + ", " ~ "]
    c1, c2 = rng.choice(combs), rng.choice(combs)
    parts = [L + c1 + T, L + c2 + T]
    if rng.chance(0.3):
        parts.append(rng.choice([T, L + rng.choice(combs) + E, E + rng.choice(combs) + T]))
    if rng.chance(0.3):
        rng.shuffle(parts)
    rules = [{"sel": ", ".join(parts), "extends": []}, {"sel": E, "extends": [(T, False)]}]
    if rng.chance(0.3):
        rules.append({"sel": L + rng.choice(combs) + E, "extends": []})
    if rng.chance(0.5):
        rules.reverse()
    return al, rules


def gen_covering(rng):
    """a multi-compound extender of T next to something that covers the selector it generates with a lower specificity
    (a second extender of T that is a superselector of the first one's subject, or such a selector already in the target
    rule's list): trimming must keep the generated selector unless what covers it is at least as specific as the extender"""
    al = G.alphabet(rng, rng.range(3, 4))
    names = [x for x in al if not x.startswith("::")]
    rng.shuffle(names)
    if len(names) < 3:
        return gen_sheet(rng)
    T, L, E = names[0], names[1], names[2]
    extra = names[3] if len(names) > 3 else L
    comb = rng.choice([" ", " ", " > ", " + ", " ~ "])
    e1 = L + comb + E + (extra if rng.chance(0.2) and not extra[0].isalpha() and extra != E else "")
    tsel = rng.choice([T, T, T + (extra if not extra[0].isalpha() and extra != T else ""), T + ", " + E, E + ", " + T])
    rules = [{"sel": tsel, "extends": []}, {"sel": e1, "extends": [(T, False)]}]
    k = rng.below(4)
    if k == 0:
        rules.append({"sel": E, "extends": [(T, False)]})
    elif k == 1:
        rules.append({"sel": rng.choice([E, L + " " + E]) if comb != " " else E, "extends": [(T, False)]})
    elif k == 2:
        rules.append({"sel": E + ", " + L, "extends": [(T, False)]})
    rng.shuffle(rules)
    return al, rules


def unify_simple(last, rest):
    """compound `last` extended by the simple selectors `rest` (None when they cannot be one compound / not modelled)"""
    out = list(last)
    for s_ in rest:
        if s_ in out:
            continue
        if s_[0] in ("type", "univ", "pe", "pc", "ph"):
            return None
        if s_[0] == "id" and any(o[0] == "id" for o in out):
            return None
        out.append(s_)
    return out


def sheet_text(rules, order=None):
    idx = list(range(len(rules))) if order is None else order
    out = []
    for i in idx:
        r = rules[i]
        body = "r: %d;" % i + "".join(" @extend %s%s;" % (t, " !optional" if opt else " !optional") for t, opt in r["extends"])
        out.append("%s { %s }" % (r["sel"], body))
    return "\n".join(out)


def output_selectors(css):
    blocks, _ = cssread.read(css)
    out = {}
    for ctx, s, decls in blocks:
        if decls:
            for p, v in decls:
                if p == "r":
                    out.setdefault(int(v), []).append(s)
    return out


def credit_for(u, rules, parsed):
    credit = {}
    changed = True
    rounds = 0
    while changed and rounds < 12:
        changed = False
        rounds += 1
        for i, r in enumerate(rules):
            if not r["extends"]:
                continue
            row = u.match_all(parsed[i], credit)
            for t, _ in r["extends"]:
                for x in range(u.n):
                    key = (t, x)
                    old = credit.get(key, 0)
                    if row[x] | old != old:
                        credit[key] = row[x] | old
                        changed = True
    credit["__frozen__"] = True      # from now on results may be memoised per complex selector
    return credit


def _compounds(sl, inside_pseudo=False):
    """all compounds of a parsed selector list, including those inside selector pseudos: (compound, inside_pseudo)"""
    for cx in sl:
        for comb, cp in cx:
            yield cp, inside_pseudo
            for s in cp:
                if s[0] == "pc" and len(s) > 2 and isinstance(s[2], tuple) and s[2][0] == "sel":
                    for x in _compounds(s[2][1], True):
                        yield x


def shape_facts(rules, parsed):
    """structural facts used to key known findings narrowly"""
    targets = {t for r in rules for t, _ in r["extends"]}
    two = False
    inside = False
    for i, r in enumerate(rules):
        for cp, in_pseudo in _compounds(parsed[i]):
            names = {sel.simple_text(s) for s in cp if s[0] != "pc" or len(s) <= 2 or not isinstance(s[2], tuple)}
            if len(names & targets) >= 2:
                two = True
            if in_pseudo and r["extends"] and names & targets:
                inside = True
    return {"two_targets_in_one_compound": two, "extender_has_target_inside_pseudo": inside}


def single_compound(sl):
    return all(len(cx) == 1 for cx in sl)


def judge_sheet(sh, al, rules, res, text, nodes, reversed_res=None):
    sh.ev()
    from ..core import h64
    h = "%016x" % h64(text)
    rp = {"text": text}
    facts = {"stylesheet": text}
    if "panic" in res:
        sh.violation("panic:" + h, "panic: %s\n%s" % (res["panic"], text), rp, facts)
        return
    if "timeout" in res or "died" in res:
        if any(t in r["sel"] for r in rules for t, _ in r["extends"]):
            sh.violation("self-extend-blowup:" + h, "compilation of a self-extending rule does not finish within the watchdog / memory limit (%s)\n%s" % (sorted(res.keys()), text),
                         rp, dict(facts, self_extension=True))
        else:
            sh.inconc("watchdog-or-memory-limit")
        return
    if "ok" not in res:
        sh.count("rejected_(e.g. compound unification of extender impossible)")
        return
    css = res["ok"]
    if len(css) > 6000:
        sh.inconc("output-too-large-for-dom-oracle")
        return
    if "%" in css:
        sh.violation("placeholder-in-output:" + h, "a placeholder selector reached the output\n%s\n--\n%s" % (text, css), rp, dict(facts, output=css))
        return
    try:
        outs = output_selectors(css)
        parsed = [sel.parse(r["sel"]) for r in rules]
        outp = {i: sel.parse(", ".join(v)) for i, v in outs.items()}
    except (cssread.CssError, sel.SelError, ValueError) as e:
        sh.inconc("unparsed:" + str(e)[:30])
        return
    atoms = sel.atoms_of([c for p in parsed for c in p] + [c for p in outp.values() for c in p])
    us = sel.universes(atoms, nodes, max_bits=600_000)
    if not any(u.n >= 2 for u in us):
        sh.inconc("alphabet-too-large-for-dom-enumeration")
        return
    credits = {id(u): credit_for(u, rules, parsed) for u in us}
    all_single = all(single_compound(parsed[i]) for i, r in enumerate(rules) if r["extends"])
    plain_extenders = all_single and not any("(" in r["sel"] for r in rules if r["extends"])
    n_extending = sum(1 for r in rules if r["extends"])
    if ":not(" in text and n_extending > 1:
        # crediting through negation is not monotone once extensions chain: outside the judged fragment
        sh.inconc("negation-with-chained-extends")
        return
    rewritten = False
    for i, r in enumerate(rules):
        orig = parsed[i]
        new = outp.get(i)
        if new is None:
            # invisible rule (placeholder-only or everything placeholder): nothing to judge natively
            continue
        if sel.to_text(new) != sel.to_text(orig):
            rewritten = True
        for u in us:
            cr = credits[id(u)]
            got_row = u.match_all(new)
            want_row = u.match_all(orig, cr)
            nat_row = u.match_all(orig) if ":not" not in r["sel"] else None
            # inside :not() Sass deliberately extends with simple/compound extenders only (no :not(:not()), no complex
            # arguments), so the rewritten selector may match more than the credited original there
            judge_sound = (":not(" not in r["sel"]) or plain_extenders
            for e in range(u.n):
                got, want = got_row[e], want_row[e]
                bad = got & ~want if judge_sound else 0
                if bad:
                    culprits = [sel.complex_text(cx) for cx in new if u.match_all([cx])[e] & bad]
                    # under :not(), incompleteness turns into unsoundness: would the original match this element if only
                    # one target at a time were credited? (then the excess exists only because two targets of one
                    # compound inside :not() are never replaced together)
                    single_all = u.ALL
                    for t in sorted({t for rr in rules for t, _ in rr["extends"]}):
                        cr_t = {k: v for k, v in cr.items() if k != "__frozen__" and k[0] == t}
                        single_all &= u.match_all(orig, cr_t)[e]
                    facts = dict(facts, unsound_members=culprits, rule_has_negation=":not(" in r["sel"],
                                 excess_only_where_two_targets_are_credited_at_once=(bad & ~single_all) == 0, **shape_facts(rules, parsed))
                    facts = dict(facts,
                                 every_unsound_member_mixes_next_and_following_sibling=bool(culprits) and all(" + " in c and " ~ " in c for c in culprits))
                    sh.violation("unsound:" + h, "rule %d `%s` was rewritten to `%s`, which matches element #%d of %s although the original does not even when extenders are credited with their targets\n%s" % (
                        i, r["sel"], sel.to_text(new), e, u.witness(bad), text), rp, dict(facts, rule=i, rewritten=sel.to_text(new), dom=u.witness(bad)))
                    return
                if plain_extenders and "(" not in r["sel"]:
                    miss = want & ~got
                    if miss:
                        # would the element already be owed with the credit of one target alone? (if not, the match
                        # needs two targets of the same compound replaced at once)
                        single = 0
                        for t in sorted({t for rr in rules for t, _ in rr["extends"]}):
                            cr_t = {k: v for k, v in cr.items() if k != "__frozen__" and k[0] == t}
                            single |= u.match_all(orig, cr_t)[e]
                        facts = dict(facts, missing_only_where_two_targets_are_credited_at_once=(miss & single) == 0, **shape_facts(rules, parsed))
                        sh.violation("incomplete:" + h, "rule %d `%s` -> `%s` does not match element #%d of %s, which matches once extenders are credited (all extenders are single compounds)\n%s" % (
                            i, r["sel"], sel.to_text(new), e, u.witness(miss), text), rp, dict(facts, rule=i, rewritten=sel.to_text(new), dom=u.witness(miss)))
                        return
                if nat_row is not None:
                    lost = nat_row[e] & ~got
                    if lost:
                        sh.violation("first-law:" + h, "rule %d `%s` -> `%s` no longer matches element #%d of %s that it matched before extension\n%s" % (
                            i, r["sel"], sel.to_text(new), e, u.witness(lost), text), rp, dict(facts, rule=i, rewritten=sel.to_text(new), dom=u.witness(lost)))
                        return
        # second law: a generated complex selector is at least as specific as some extender it may stem from
        ext_specs = [sel.specificity(cx) for j, rr in enumerate(rules) if rr["extends"] for cx in parsed[j]]
        orig_texts = {sel.complex_text(c) for c in orig}
        if ext_specs and all_single and "(" not in text:
            for cx in new:
                if sel.complex_text(cx) not in orig_texts and sel.specificity(cx) < min(ext_specs):
                    sh.violation("second-law:" + h, "generated selector `%s` (specificity %s) is less specific than every extender (%s)\n%s" % (
                        sel.complex_text(cx), sel.specificity(cx), ext_specs, text), rp, dict(facts, rule=i))
                    return
    # second law through trimming: a target that is a whole member `T R` of a rule's list (one compound) extended by a
    # multi-compound extender `A B` always generates `A B.R`; it may only be dropped from the output when what covers its
    # elements there is at least as specific as the extender
    # (not judged when an extender's own selector contains a target of the sheet: the extender is then itself rewritten
    # by the other extensions, what it generates descends from the rewritten forms, and which of them exist depends on the
    # order of the rules -- the territory of the order-dependence findings, not of this law)
    _targets = {t for rr in rules for t, _ in rr["extends"]}
    _ext_simples = {sel.simple_text(s_) for jj, rr in enumerate(rules) if rr["extends"] for cx2 in parsed[jj] for _, cp2 in cx2 for s_ in cp2}
    if "(" not in text and "::" not in text and "@media" not in text and not (_targets & _ext_simples):
        first_ext = min([jj for jj, rr in enumerate(rules) if rr["extends"]] or [len(rules)])
        for i, r in enumerate(rules):
            new = outp.get(i)
            if new is None or i > first_ext:
                # (only rules declared before every extending rule are judged: when an extender precedes the rule, which
                # generated selectors survive depends on the order in which the extensions reach the rule -- the
                # order-dependence findings again; `[t] {@extend %p} [t]%p {} a ~ .y[t] ~ [t] {@extend %p}` keeps only `[t]`
                # while the same sheet with the rule first keeps all three)
                continue
            for member in parsed[i]:
                if len(member) != 1:
                    continue
                cp = member[0][1]
                for j, rr in enumerate(rules):
                    for t, _ in rr["extends"]:
                        tt = [s_ for s_ in cp if sel.simple_text(s_) == t]
                        if len(tt) != 1:
                            continue
                        rest = [s_ for s_ in cp if s_ is not tt[0]]
                        for ecx in parsed[j]:
                            if len(ecx) < 2:
                                continue
                            # (the specificity an extender's simple selectors stand for is recorded per simple selector,
                            # first registration wins — so the bound is only certain when the extender has a simple
                            # selector that no other extender in the sheet shares)
                            others = {sel.simple_text(s_) for jj, r2 in enumerate(rules) if r2["extends"] for cx2 in parsed[jj] if cx2 is not ecx
                                      for _, cp2 in cx2 for s_ in cp2}
                            # (`*` does not count: it vanishes when the compound is unified with other simple selectors)
                            if all(sel.simple_text(s_) in others or s_[0] == "univ" for _, cp2 in ecx for s_ in cp2):
                                continue
                            last = unify_simple(ecx[-1][1], rest)
                            if last is None:
                                continue
                            g = list(ecx[:-1]) + [(ecx[-1][0], last)]
                            need = sel.specificity(ecx)
                            strong = [cx for cx in new if sel.specificity(cx) >= need]
                            for u in us:
                                grow = u.match_all([g])
                                crow = u.match_all(strong) if strong else [0] * u.n
                                for e in range(u.n):
                                    bad = grow[e] & ~crow[e]
                                    if bad:
                                        sh.violation("second-law-trim:" + h, "rule %d `%s` extended by `%s` (specificity %s): the generated `%s` is not in the output `%s`, and element #%d of %s is only reached through less specific selectors\n%s" % (
                                            i, r["sel"], sel.complex_text(ecx), need, sel.complex_text(g), sel.to_text(new), e, u.witness(bad), text), rp,
                                            dict(facts, rule=i, rewritten=sel.to_text(new), generated=sel.complex_text(g), dom=u.witness(bad), **shape_facts(rules, parsed)))
                                        return
                            sh.count("second_law_trim_judged")
    # order independence
    if reversed_res is not None and "ok" in reversed_res and len(reversed_res["ok"]) > 6000:
        sh.inconc("reversed-output-too-large")
    elif reversed_res is not None and "ok" in reversed_res:
        try:
            o2 = output_selectors(reversed_res["ok"])
            for i in set(outs) | set(o2):
                a = {sel.complex_text(c) for c in sel.parse(", ".join(outs.get(i, [])))} if outs.get(i) else set()
                b = {sel.complex_text(c) for c in sel.parse(", ".join(o2.get(i, [])))} if o2.get(i) else set()
                if a != b:
                    # differing redundancy is fine; meaning must agree
                    sa, sb = (sel.parse(", ".join(outs[i])) if outs.get(i) else []), (sel.parse(", ".join(o2[i])) if o2.get(i) else [])
                    v = (sel.subset_violation(us, sa, sb) if sb else (sa and True)) or (sel.subset_violation(us, sb, sa) if sa else (sb and True))
                    if v:
                        sh.violation("order-dependent:" + h, "rule %d is rewritten to `%s` in source order but to `%s` when the rules are reversed (different match sets)\n%s" % (
                            i, ", ".join(outs.get(i, [])), ", ".join(o2.get(i, [])), text), rp, dict(facts, rule=i, all_extenders_single_compound=all_single, **shape_facts(rules, parsed)))
                        return
        except (cssread.CssError, sel.SelError, ValueError):
            sh.inconc("reversed-unparsed")
    elif reversed_res is not None and ("panic" in reversed_res or "timeout" in reversed_res or "died" in reversed_res):
        if "panic" in reversed_res and not reversed_res["panic"].get("msg", "").startswith("VERIF-BUDGET"):
            sh.violation("panic:" + h, "panic when the rules are reversed: %s\n%s" % (reversed_res["panic"], text), rp, facts)
        else:
            sh.inconc("reversed-order-budget-or-watchdog")
        return
    elif reversed_res is not None and "ok" not in reversed_res:
        sh.violation("order-dependent-status:" + h, "compiles in source order but fails when the rules are reversed: %s\n%s" % (str(reversed_res.get("err", {}).get("msg"))[:100], text), rp, facts)
        return
    sh.count("sheets_sound" + ("_and_complete" if all_single else ""))
    if rewritten:
        sh.nontrivial(text)


FAMILIES = [
    # (stylesheet, expectation) expectation: 'error' | 'ok' | ('not-in', selector-substring, where)
    (".a { x: y; @extend .missing; }", "error"),
    (".a { x: y; @extend .missing !optional; }", "ok"),
    (".a { x: y; @extend %nope; }", "error"),
    ("%p { x: y; } .a { @extend %p; }", "ok"),
    (".a { x: y; } .b { @extend .a; @extend .zz; }", "error"),
    ("@media print { .a { @extend .b; } } .b { c: d; }", "error"),
    ("@media print { .a { @extend .b; } .b { c: d; } }", "ok"),
    (".b { c: d; } @media screen { .a { @extend .b; } }", "error"),
    ("@media print { .a { @extend .b !optional; } } .b { c: d; }", "error-or-unextended"),
    ("@media print { .a { @extend .b; } .b { c: d; } } .b { e: f; }", "outside-unextended"),
]


def run_families(sh):
    rs = sh.w.batch([{"text": t} for t, _ in FAMILIES])
    for (t, exp), r in zip(FAMILIES, rs):
        sh.ev()
        rp = {"text": t}
        if exp == "error":
            if "err" not in r:
                sh.violation("missing-or-cross-media-extend-accepted:" + t, "must be an error but compiled:\n%s\n->\n%s" % (t, r.get("ok")), rp, {"stylesheet": t, "output": r.get("ok")})
            else:
                sh.count("family_error_ok")
        elif exp == "ok":
            if "ok" not in r:
                sh.violation("valid-extend-rejected:" + t, "must compile but failed: %s\n%s" % ((r.get("err") or {}).get("msg"), t), rp, {"stylesheet": t})
            else:
                sh.count("family_ok")
        elif exp == "error-or-unextended":
            if "ok" in r and ".a" in (r["ok"].split("{")[0]):
                sh.violation("cross-media-extend-applied:" + t, "@extend inside @media changed a rule outside it:\n%s\n->\n%s" % (t, r["ok"]), rp, {"stylesheet": t, "output": r.get("ok")})
            else:
                sh.count("family_ok")
        elif exp == "outside-unextended":
            if "ok" in r:
                blocks, _ = cssread.read(r["ok"])
                outside = [s for ctx, s, d in blocks if not ctx and d]
                if any(".a" in s for s in outside):
                    sh.violation("cross-media-extend-applied:" + t, "@extend inside @media changed a rule outside it:\n%s\n->\n%s" % (t, r["ok"]), rp, {"stylesheet": t, "output": r.get("ok")})
                else:
                    sh.count("family_ok")
            else:
                sh.count("family_rejected")
        sh.nontrivial(t)


def run(sh):
    rng = sh.rng
    nodes = sh.params.get("nodes", 3)
    if sh.shard == 0:
        run_families(sh)
    n = 0
    while not sh.expired():
        cases = [gen_chain(rng) if rng.chance(0.2) else (gen_combinators(rng) if rng.chance(0.2) else (gen_covering(rng) if rng.chance(0.15) else gen_sheet(rng))) for _ in range(8)]
        specs = []
        for al, rules in cases:
            specs.append({"text": sheet_text(rules)})
            specs.append({"text": sheet_text(rules, list(range(len(rules)))[::-1])})
        rs = sh.worker("R", timeout=3, mem_gb=3).batch(specs, timeout=10)
        for ci, (al, rules) in enumerate(cases):
            text = sheet_text(rules)
            judge_sheet(sh, al, rules, rs[2 * ci], text, nodes, rs[2 * ci + 1])
            if n < 2 and "ok" in rs[2 * ci]:
                sh.sample({"stylesheet": text, "output": rs[2 * ci]["ok"][:400]})
                n += 1


def rules_of_text(text):
    """inverse of sheet_text (the replay file stores the stylesheet only)"""
    rules = {}
    for line in text.split("\n"):
        m = re.match(r"^(.*?) \{ r: (\d+);(.*) \}$", line)
        if not m:
            return None
        rules[int(m.group(2))] = {"sel": m.group(1), "extends": [(t, False) for t in re.findall(r"@extend (.*?) !optional;", m.group(3))]}
    return [rules[i] for i in sorted(rules)] if sorted(rules) == list(range(len(rules))) else None


def replay(sh, payload):
    t = payload["replay"]["text"]
    print(t)
    rules = rules_of_text(t)
    before = len(sh.violations) + sum(sh.known.values())
    if rules is None or sheet_text(rules) != t:
        # one of the fixed families
        for ft, exp in FAMILIES:
            if ft == t:
                saved = FAMILIES[:]
                FAMILIES[:] = [(ft, exp)]
                try:
                    run_families(sh)
                finally:
                    FAMILIES[:] = saved
        r = sh.w.compile({"text": t})
        print(r.get("ok") or r)
    else:
        w = sh.worker("R", timeout=3, mem_gb=3)
        r1, r2 = w.batch([{"text": t}, {"text": sheet_text(rules, list(range(len(rules)))[::-1])}], timeout=10)
        print("source order:   ", r1.get("ok") or r1)
        print("reversed order: ", r2.get("ok") or r2)
        judge_sheet(sh, None, rules, r1, t, sh.params.get("nodes", 3), r2)
    for v in sh.violations.values():
        print(v["sig"], v["msg"][:300])
    for k in sh.known:
        print("known finding:", k)
    if sh.inconclusive:
        print("inconclusive:", dict(sh.inconclusive))
        return "inconclusive"
    return "violated" if len(sh.violations) + sum(sh.known.values()) > before else "held"
