"""C08 — units convert by the CSS ratios; unit algebra is consistent.
Oracle: table-free model (dimension classes with exact ratios) evaluated independently; observations are exact
f64 bits + unit lists delivered by the probe."""
import math

from .. import probe

ID = "C08"
RULE = ("exhaustive: all ordered pairs of the 34 known units + one unknown unit + unitless (36 x 36) x operations "
        "{+, -, <, ==, %, math.min, math.max, math.div, *, math.compatible, math.unit of product} x 3 magnitudes; "
        "sampled: products/quotients of up to 3x3 unit factors judged as physical quantities (value in base units + dimension exponents), round trips a->b->a and a->b->c, emission of compound-unit numbers. "
        "non-trivial = at least one operand has a unit; distinct = distinct expression texts.")
ASSUMPTIONS = ["numeric agreement is judged with relative tolerance 1e-11 (Sass's own equality tolerance)",
               "math.min/math.max (not the CSS min()/max() calculations, which are C16's subject) are used for the min/max operations"]

LENGTH = {"in": 96.0, "cm": 96.0 / 2.54, "mm": 96.0 / 25.4, "q": 96.0 / 101.6, "pt": 96.0 / 72.0, "pc": 16.0, "px": 1.0}
ANGLE = {"deg": 1.0, "grad": 0.9, "rad": 180.0 / math.pi, "turn": 360.0}
TIME = {"s": 1000.0, "ms": 1.0}
FREQ = {"Hz": 1.0, "kHz": 1000.0}
RES = {"dpi": 1.0, "dpcm": 2.54, "dppx": 96.0}
CLASSES = [LENGTH, ANGLE, TIME, FREQ, RES]
OTHERS = ["em", "rem", "lh", "%", "ex", "ch", "cap", "ic", "rlh", "vw", "vh", "vmin", "vmax", "vi", "vb", "fr"]
UNITS = list(LENGTH) + list(ANGLE) + list(TIME) + list(FREQ) + list(RES) + OTHERS
assert len(UNITS) == 34
ALL = UNITS + ["foo", ""]
MAGS = [2.0, 0.5, 37.0]


def plan(tier):
    return {"budget_s": 40 if tier == "quick" else 300, "profiles": ["R"], "min_evaluations": 2000}


def cls(u):
    for c in CLASSES:
        if u in c:
            return c
    return None


def factor(frm, to):
    """multiply a value in `frm` by this to get `to`; None if not convertible"""
    if frm == to:
        return 1.0
    c = cls(frm)
    if c is None or to not in c:
        return None
    return c[frm] / c[to]


def _base(u):
    c = cls(u)
    if c is None:
        return 1.0, "u:" + u
    return c[u], "class:%d" % CLASSES.index(c)


def quantity(val, nu, du):
    """(value expressed in the base unit of every dimension class, sorted [(dimension, exponent)])"""
    dims = {}
    q = val
    for u in nu:
        if u:
            f, k = _base(u)
            q *= f
            dims[k] = dims.get(k, 0) + 1
    for u in du:
        if u:
            f, k = _base(u)
            q /= f
            dims[k] = dims.get(k, 0) - 1
    return q, sorted((k, e) for k, e in dims.items() if e)


def gen_compound(rng):
    """products/quotients of up to 3 x 3 factors, biased to several mutually convertible factors on one side"""
    def unit(pref):
        k = rng.below(10)
        if pref is not None and k < 6:
            return rng.choice(list(pref))
        if k < 8:
            return rng.choice(UNITS)
        return rng.choice(["", "foo", "em", "%"])
    pref = rng.choice(CLASSES)
    ns = [(rng.choice([1.0, 2.0, 3.0, 0.5, 4.0]), unit(pref)) for _ in range(rng.range(1, 3))]
    ds = [(rng.choice([1.0, 2.0, 0.5, 4.0]), unit(pref)) for _ in range(rng.range(1, 3))]
    N = [lit(x, u) for x, u in ns]
    D = [lit(x, u) for x, u in ds]
    form = rng.below(5)
    if form == 0:
        e = "math.div(%s, %s)" % (" * ".join(N), " * ".join(D))
    elif form == 1:
        e = "%s * math.div(1, %s)" % (" * ".join(N), " * ".join(D))
    elif form == 2:
        e = " * ".join(N)
        for d_ in D:
            e = "math.div(%s, %s)" % (e, d_)
    elif form == 3:
        e = "math.div(1, %s) * %s" % (" * ".join(D), " * ".join(N))
    else:
        e = " * ".join(["math.div(%s, %s)" % (N[i] if i < len(N) else "1", D[i] if i < len(D) else "1") for i in range(max(len(N), len(D)))])
    val = 1.0
    for x, _ in ns:
        val *= x
    for x, _ in ds:
        val /= x
    q, dims = quantity(val, [u for _, u in ns], [u for _, u in ds])
    return e, ("quant", q, dims)


def gen_compound_pair(rng):
    """an operation between two compound quantities whose factors are pairwise convertible in position (in*in vs cm*cm,
    px/ms vs px/s) or not: the result must be the correctly converted quantity / truth value, or an error (convertibility
    of compound units is not demanded) -- never a number computed on the raw magnitudes"""
    nn, nd = rng.choice([(2, 0), (1, 1), (2, 1), (1, 2), (3, 0)])
    sides = [[], []], [[], []]       # (numerators, denominators) of A and of B
    for pos in range(nn + nd):
        c = rng.choice(CLASSES)
        ua = rng.choice(list(c))
        ub = rng.choice(list(c)) if rng.chance(0.85) else rng.choice(UNITS)
        if rng.chance(0.15):
            ub = ua
        k = 0 if pos < nn else 1
        sides[0][k].append(ua)
        sides[1][k].append(ub)
    if rng.chance(0.15):
        rng.shuffle(sides[1][0])      # the same factors in another order
    xs = [rng.choice([1.0, 2.0, 3.0, 0.5, 5.0]), rng.choice([1.0, 2.0, 4.0, 0.25, 7.0])]
    texts, qs = [], []
    for (nu, du), x in zip(sides, xs):
        t = " * ".join([lit(x, nu[0])] + [lit(1, u) for u in nu[1:]])
        for u in du:
            t = "math.div(%s, %s)" % (t, lit(1, u))
        texts.append("(%s)" % t)
        qs.append(quantity(x, nu, du))
    (qa, da), (qb, db) = qs
    if not da or not db:
        return None       # a side whose units cancel completely is unitless: the unitless rules apply, not these
    op = rng.choice(["+", "-", "<", "<=", ">", ">=", "==", "!=", "min", "max"])
    A, B = texts
    same = da == db
    apart = abs(qa - qb) > 1e-6 * max(abs(qa), abs(qb))
    if op in ("+", "-"):
        e = "%s %s %s" % (A, op, B)
        r = qa + qb if op == "+" else qa - qb
        if same and abs(r) < 1e-6 * max(abs(qa), abs(qb)):
            return None
        return e, (("err-or", ("quant", r, da)) if same else ("err",))
    if op in ("<", "<=", ">", ">="):
        e = "%s %s %s" % (A, op, B)
        if same and not apart:
            return None
        return e, (("err-or", ("bool", {"<": qa < qb, "<=": qa <= qb, ">": qa > qb, ">=": qa >= qb}[op])) if same else ("err",))
    if op in ("==", "!="):
        if same and not apart:
            return None
        return "%s %s %s" % (A, op, B), ("bool", op == "!=")
    e = "math.%s(%s, %s)" % (op, A, B)
    if same and not apart:
        return None
    return e, (("err-or", ("quant", min(qa, qb) if op == "min" else max(qa, qb), da)) if same else ("err",))


def gen_nary_extremum(rng):
    """math.min / math.max (also through a splat) over 3-5 numbers of one dimension class in mixed units: the result must
    be one of the operands, unchanged, and extremal as a quantity"""
    c = rng.choice(CLASSES)
    units = list(c)
    n = rng.range(3, 5)
    ops = [(rng.choice([0.5, 1.0, 2.0, 3.0, 10.0, 25.0, 50.0, 96.0, 100.0, 0.1]), rng.choice(units)) for _ in range(n)]
    which = rng.choice(["min", "max"])
    args = ", ".join(lit(x, u) for x, u in ops)
    e = "math.%s(%s)" % (which, args) if rng.chance(0.7) else "%s((%s)...)" % (which, args)
    qs = [x * c[u] for x, u in ops]
    best = min(qs) if which == "min" else max(qs)
    winners = [(x, u) for (x, u), q in zip(ops, qs) if close(q / best, 1.0)]
    return e, ("oneof", winners)


def lit(x, u):
    s = repr(x) if x != int(x) else str(int(x))
    return s + u


def close(a, b):
    if a == b:
        return True
    if math.isnan(a) or math.isnan(b):
        return math.isnan(a) and math.isnan(b)
    return abs(a - b) <= 1e-11 * max(1.0, abs(a), abs(b))


def sass_mod(a, b):
    if b == 0:
        return float("nan")
    r = math.fmod(a, b)
    if r != 0 and (r < 0) != (b < 0):
        r += b
    return r


def expect(op, u, v, x):
    """expected outcome of `1u op xv`: ('err',) | ('num', value, unit-string or (numer,denom)) | ('bool', b) | ('str', s)"""
    a = 1.0
    both = u != "" and v != ""
    f = factor(v, u) if both else 1.0
    res_unit = u if u != "" else v
    if op in ("+", "-", "%"):
        if both and f is None:
            return ("err",)
        b = x * f
        val = a + b if op == "+" else (a - b if op == "-" else sass_mod(a, b))
        return ("num", val, ((res_unit,) if res_unit else (), ()))
    if op == "<":
        if both and f is None:
            return ("err",)
        return ("bool", a < x * f and not close(a, x * f))
    if op == "==":
        if u == "" and v == "":
            return ("bool", close(a, x))
        if not both or f is None:
            return ("bool", False)
        return ("bool", close(a, x * f))
    if op in ("min", "max"):
        if both and f is None:
            return ("err",)
        b = x * f
        pick_a = (a <= b) if op == "min" else (a >= b)
        if close(a, b):
            return ("either", (a, ((u,) if u else (), ())), (x, ((v,) if v else (), ())))
        return ("num", a, ((u,) if u else (), ())) if pick_a else ("num", x, ((v,) if v else (), ()))
    if op == "compatible":
        return ("bool", (not both) or f is not None)
    if op == "*":
        nu = tuple(t for t in (u, v) if t)
        return ("num", a * x, (nu, ()))
    if op == "div":
        if both and f is not None:
            return ("num", a / (x * f), ((), ()))
        return ("num", a / x, ((u,) if u else (), (v,) if v else ()))
    raise ValueError(op)


def expr(op, u, v, x):
    A, B = lit(1, u), lit(x, v)
    if op in ("+", "-", "<", "==", "*", "%"):
        return "%s %s %s" % (A, op, B)
    if op == "min":
        return "math.min(%s, %s)" % (A, B)
    if op == "max":
        return "math.max(%s, %s)" % (A, B)
    if op == "compatible":
        return "math.compatible(%s, %s)" % (A, B)
    if op == "div":
        return "math.div(%s, %s)" % (A, B)


def check(sh, e, exp, got):
    """compare one observation with the expectation; returns problem string or None"""
    kind = got[0]
    if exp[0] == "err":
        return None if kind == "err" else "expected an error (inconvertible units), got %s" % (got,)
    if exp[0] == "err-or":
        return None if kind == "err" else check(sh, e, exp[1], got)
    if kind != "ok":
        return "expected a value, got %s" % (got,)
    d = got[1]
    if exp[0] == "bool":
        if d.get("t") != "b" or d.get("v") != exp[1]:
            return "expected %s, got %s" % (exp[1], d)
        return None
    if exp[0] == "either":
        return None if any(check(sh, e, ("num", val, un), got) is None for val, un in exp[1:]) else "expected one of the operands, got %s" % d
    if exp[0] == "oneof":
        if d.get("t") != "n":
            return "expected a number, got %s" % d
        val, nu, du = probe.num(d)
        if du or len(nu) != 1 or not any(nu[0] == u and close(val, x) for x, u in exp[1]):
            return "expected one of the extremal operands %s unchanged, got %r%s" % (["%r%s" % w for w in exp[1]], val, "*".join(nu))
        return None
    if exp[0] == "quant":
        # the physical quantity (value in base units + dimension exponents) is what unit algebra must preserve;
        # which of several convertible factors survives a cancellation is not fixed by the statement
        if d.get("t") != "n":
            return "expected a number, got %s" % d
        val, nu, du = probe.num(d)
        q, dims = quantity(val, nu, du)
        if dims != exp[2]:
            return "expected dimensions %s, got %s (units %s/%s, value %r)" % (exp[2], dims, nu, du, val)
        if not close(q / exp[1], 1.0):
            return "expected the quantity %r (base units), got %r (units %s/%s, value %r)" % (exp[1], q, nu, du, val)
        return None
    if exp[0] == "num":
        if d.get("t") != "n":
            return "expected a number, got %s" % d
        val, nu, du = probe.num(d)
        enu, edu = exp[2]
        if sorted(nu) != sorted(enu) or sorted(du) != sorted(edu):
            # the same quantity expressed in a convertible unit is equally right (e.g. which of two
            # convertible factors survives a cancellation is not fixed by the statement)
            if len(nu) == len(enu) == 1 and not du and not edu and factor(nu[0], enu[0]) is not None \
                    and close(val * factor(nu[0], enu[0]), exp[1]) and exp[3:] == ("quantity",):
                return None
            return "expected unit %s/%s, got %s/%s (value %r)" % (enu, edu, nu, du, val)
        if not close(val, exp[1]):
            return "expected %r, got %r (unit %s)" % (exp[1], val, nu)
        return None
    return "bad expectation"


OPS = ["+", "-", "<", "==", "%", "min", "max", "div", "*", "compatible"]


def run_set(sh, cases):
    """cases: list of (expr_text, expectation)"""
    ok_cases = [c for c in cases if c[1][0] not in ("err", "err-or")]
    err_cases = [c for c in cases if c[1][0] in ("err", "err-or")]
    for base in range(0, len(ok_cases), 300):
        chunk = ok_cases[base:base + 300]
        got = probe.eval_many(sh.w, [c[0] for c in chunk])
        for (e, exp), g in zip(chunk, got):
            judge(sh, e, exp, g)
    # expected errors: each alone (a compile stops at the first error)
    for base in range(0, len(err_cases), 64):
        chunk = err_cases[base:base + 64]
        specs = [{"text": probe._sheet([c[0]], "", "")} for c in chunk]
        rs = sh.w.batch(specs)
        for (e, exp), r in zip(chunk, rs):
            if "err" in r:
                g = ("err", r["err"].get("msg"))
            elif "ok" in r:
                p = r.get("probe") or [[None, {"t": "missing"}]]
                g = ("ok", p[0][1] if len(p[0]) > 1 else {"t": "none"})
            elif "panic" in r:
                g = ("panic", r["panic"].get("msg", "") + " @ " + r["panic"].get("loc", ""))
            else:
                g = ("other", str(r)[:100])
            judge(sh, e, exp, g)


def judge(sh, e, exp, g):
    sh.ev()
    if g[0] == "panic":
        sh.violation("panic:" + e, "panic evaluating `%s`: %s" % (e, g[1]), {"expr": e}, {"expr": e, "panic": g[1]})
        return
    problem = check(sh, e, exp, g)
    if problem:
        sh.violation("unit-algebra:" + e, "`%s`: %s" % (e, problem), {"expr": e, "expected": list(map(str, exp))}, {"expr": e, "problem": problem})
    else:
        sh.count("agree_" + exp[0])
        sh.nontrivial(e)


def run(sh):
    rng = sh.rng
    rows = [u for i, u in enumerate(ALL) if i % sh.nshards == sh.shard]
    n = 0
    for u in rows:
        cases = []
        for v in ALL:
            for op in OPS:
                for x in MAGS:
                    cases.append((expr(op, u, v, x), expect(op, u, v, x)))
            # math.unit of the product, and emission of compound units must fail
            nu = [t for t in (u, v) if t]
            cases.append(("math.unit(%s * %s)" % (lit(1, u), lit(2, v)), ("str", "*".join(nu))))
        run_set_str(sh, [c for c in cases if c[1][0] == "str"])
        run_set(sh, [c for c in cases if c[1][0] != "str"])
        if n == 0 and sh.shard == 0:
            sh.sample({"expr": cases[0][0], "expected": list(map(str, cases[0][1]))})
            n = 1
    sh.counters["exhaustive_unit_rows_done"] += len(rows)
    # sampled part
    while not sh.expired():
        cases = []
        for _ in range(200):
            k = rng.below(10)
            if k >= 8:
                cases.append(gen_nary_extremum(rng))
                sh.count("nary_min_max_cases")
                pc = gen_compound_pair(rng)
                if pc is not None:
                    cases.append(pc)
                    sh.count("compound_pair_cases")
            elif k >= 5:
                cases.append(gen_compound(rng))
                sh.count("compound_quantity_cases")
            elif k == 0:  # round trip a -> b -> a : (1a + 0b) converts b to a; use math.div to convert explicitly
                c = rng.choice(CLASSES)
                a, b = rng.choice(list(c)), rng.choice(list(c))
                x = rng.choice([1.0, 3.0, 0.25, 1234.5])
                # x a -> b: 0b + xa ; then back: 0a + that
                cases.append(("0%s + (0%s + %s)" % (a, b, lit(x, a)), ("num", x, ((a,), ()))))
            elif k == 1:  # transitivity a->c == a->b->c
                c = rng.choice(CLASSES)
                a, b, d = rng.choice(list(c)), rng.choice(list(c)), rng.choice(list(c))
                x = rng.choice([1.0, 7.0, 0.5])
                cases.append(("(0%s + (0%s + %s)) == (0%s + %s)" % (d, b, lit(x, a), d, lit(x, a)), ("bool", True)))
            elif k == 2:  # compound: (x a * y b) / y b == x a
                a, b = rng.choice(UNITS), rng.choice(UNITS)
                cases.append(("math.div(%s * %s, %s)" % (lit(3, a), lit(2, b), lit(2, b)), ("num", 3.0, ((a,), ()), "quantity")))
            elif k == 3:  # compound multiplication units and cancellation with conversion
                c = rng.choice(CLASSES)
                a, b = rng.choice(list(c)), rng.choice(list(c))
                o = rng.choice(OTHERS)
                cases.append(("math.div(%s * %s, %s)" % (lit(1, a), lit(4, o), lit(1, b)), ("num", 4.0 * factor(a, b) if False else 4.0 * (cls(a)[a] / cls(a)[b]), ((o,), ()))))
            else:  # adding numbers with the same compound unit (convertible *compound* units are not demanded
                # by the statement: grass rejects them, which is the safe direction)
                a = rng.choice(UNITS)
                o = rng.choice(OTHERS)
                cases.append(("(%s * %s) + (%s * %s)" % (lit(1, a), lit(1, o), lit(2, a), lit(1, o)),
                              ("num", 3.0, ((a, o), ()))))
        run_set(sh, cases)
        # emitting compound units must be an error in both styles
        specs = []
        for _ in range(16):
            a, b = rng.choice(UNITS), rng.choice(UNITS)
            e = rng.choice(["%s * %s" % (lit(1, a), lit(1, b)), "math.div(%s, %s)" % (lit(1, a), lit(1, "em" if cls(a) else "px"))])
            for style in ("expanded", "compressed"):
                specs.append({"text": '@use "sass:math"; a { b: %s; }' % e, "style": style})
        for s, r in zip(specs, sh.w.batch(specs)):
            sh.ev()
            if "err" not in r:
                if "%" in s["text"] and "ok" in r and "%" in (r.get("ok") or "") and False:
                    continue
                out = (r.get("ok") or str(r))[:120]
                # a*a (same unit twice) and convertible/convertible are legitimate errors too; only success is wrong
                sh.violation("compound-unit-emitted:" + s["text"], "a number with compound units was emitted as CSS: %s -> %s" % (s["text"], out),
                             {"spec": s}, {"text": s["text"], "out": out})
            else:
                sh.count("compound_emission_rejected")


def run_set_str(sh, cases):
    got = probe.eval_many(sh.w, [c[0] for c in cases])
    for (e, exp), g in zip(cases, got):
        sh.ev()
        if g[0] != "ok" or g[1].get("t") != "s":
            sh.violation("unit-string:" + e, "`%s`: expected a string, got %s" % (e, g), {"expr": e}, {"expr": e})
            continue
        want = sorted(exp[1].split("*")) if exp[1] else []
        have = sorted(t for t in g[1]["v"].split("*") if t)
        if want != have:
            sh.violation("unit-string:" + e, "`%s`: expected unit string %r, got %r" % (e, exp[1], g[1]["v"]), {"expr": e}, {"expr": e})
        else:
            sh.count("agree_unit_string")


def finalize(tier, counters, params):
    return {"coverage": {"exhaustive_subspaces": ["36 x 36 ordered unit pairs x 10 operations x 3 magnitudes + math.unit of every pairwise product"]}}


def replay(sh, payload):
    e = payload["replay"].get("expr")
    if e:
        print(e, "->", probe.eval_many(sh.w, [e]))
    return "see output"
