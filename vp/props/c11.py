"""C11 — selector functions are sound with respect to element matching.
Oracle: DOM truth from the independent selector engine (vp/sel.py): every claim a selector function makes is checked
on all ordered forests with <= 3 (thorough: 4) elements labelled over the features the case mentions; plus
metamorphic agreement with the nested-rule / @extend code paths."""
import re

from .. import probe, sel
from ..gen import selectors as G

ID = "C11"
RULE = ("pairs of selector lists over a per-case alphabet of <= 5 simple selectors (types, classes, ids, attributes, "
        ":hover-like pseudo-classes, pseudo-elements, :not/:is/:where/:matches with compound or list arguments, the four "
        "combinators, <= 3 compounds): is-superselector (soundness, reflexivity), selector-unify (soundness; null only when "
        "the conjunction of two compounds is empty), selector-nest/-append vs nested rules, selector-extend/-replace vs "
        "@extend, selector-parse round trip; judged on all DOM forests up to the size bound. non-trivial = both selectors "
        "have a non-empty match set; distinct = distinct (function, arguments).")
ASSUMPTIONS = ["attribute selectors and pseudo-classes without selector arguments are opaque boolean features; an element has exactly one type, at most one id and at most one pseudo-element",
               "completeness of is-superselector/unify is not demanded (soundness only), except the compound-conjunction case named by the statement"]


def plan(tier):
    return {"budget_s": 60 if tier == "quick" else 600, "profiles": ["R"], "min_evaluations": 500, "params": {"nodes": 3 if tier == "quick" else 4}}


def q(s):
    return '"' + s.replace("\\", "\\\\").replace('"', '\\"') + '"'


def as_selector_text(d):
    """probe dump of a selector value (comma list of space lists of strings) -> text"""
    if d.get("t") == "null":
        return None
    if d.get("t") == "s":
        return d["v"]
    if d.get("t") in ("l", "al"):
        if d["sep"] == "comma" or (len(d["v"]) and d["v"][0].get("t") == "l"):
            return ", ".join(as_selector_text(x) for x in d["v"])
        return " ".join(as_selector_text(x) for x in d["v"])
    raise ValueError(str(d)[:60])


def rule_selectors(css):
    """selectors of the rules in a stylesheet in order (text before each `{` at top level)"""
    return [m.group(1).strip() for m in re.finditer(r"(?:^|\})\s*([^{}@]+?)\s*\{", css)]


def run(sh):
    rng = sh.rng
    nodes = sh.params.get("nodes", 3)
    n = 0
    while not sh.expired():
        cases = []
        for _ in range(30):
            al = G.alphabet(rng, rng.range(3, 5))
            A = G.selector_list(rng, al) if rng.chance(0.6) else G.complex_(rng, al)
            B = G.selector_list(rng, al) if rng.chance(0.4) else G.complex_(rng, al)
            if rng.chance(0.35):
                # structurally related pair (one edit apart), in either role
                B = G.related(rng, al, A)
                if rng.chance(0.5):
                    A, B = B, A
            cases.append((al, A, B))
        exprs = []
        for al, A, B in cases:
            exprs += ["is-superselector(%s, %s)" % (q(A), q(B)), "is-superselector(%s, %s)" % (q(A), q(A)),
                      "selector-unify(%s, %s)" % (q(A), q(B)), "selector-parse(%s)" % q(A),
                      "selector-nest(%s, %s)" % (q(A), q(B)), "selector-append(%s, %s)" % (q(A), q(_appendable(B)))]
        got = probe.eval_many(sh.w, exprs)
        # nested-rule counterparts
        specs = []
        for al, A, B in cases:
            specs.append({"text": "%s { %s { x: y; } }" % (A, B)})
            specs.append({"text": "%s { &%s { x: y; } }" % (A, _appendable(B))})
        nested = sh.w.batch(specs)
        for ci, (al, A, B) in enumerate(cases):
            g = got[ci * 6:(ci + 1) * 6]
            try:
                sa, sb = sel.parse(A), sel.parse(B)
            except sel.SelError:
                sh.inconc("generator-selector-unparsed")
                continue
            atoms = sel.atoms_of(sa + sb)
            us = sel.universes(atoms, nodes)
            nonempty = any(u.match_list(sa, e) for u in us for e in range(u.n)) and any(u.match_list(sb, e) for u in us for e in range(u.n))
            for e_, r in zip(exprs[ci * 6:(ci + 1) * 6], g):
                if r[0] == "panic":
                    sh.ev()
                    sh.violation("panic:" + e_, "panic in `%s`: %s" % (e_, r[1]), {"expr": e_}, {"expr": e_})
            # 1. is-superselector soundness
            sh.ev()
            r = g[0]
            if r[0] == "ok" and r[1] == {"t": "b", "v": True}:
                v = sel.subset_violation(us, sb, sa)
                if v:
                    sh.violation("superselector-unsound:%s|%s" % (A, B), "is-superselector(%s, %s) is true but an element matches B and not A\nelement #%d of DOM %s" % (A, B, v[1], v[2]),
                                 {"expr": exprs[ci * 6]}, {"A": A, "B": B, "dom": v[2], "element": v[1]})
                else:
                    sh.count("superselector_true_sound")
            elif r[0] == "ok":
                sh.count("superselector_false")
            elif r[0] == "err":
                sh.count("superselector_error")
            # reflexive
            sh.ev()
            r = g[1]
            if r[0] == "ok" and r[1] != {"t": "b", "v": True}:
                sh.violation("superselector-not-reflexive:" + A, "is-superselector(%s, %s) is false" % (A, A), {"expr": exprs[ci * 6 + 1]}, {"A": A})
            # 2. unify
            sh.ev()
            r = g[2]
            if r[0] == "ok":
                try:
                    ut = as_selector_text(r[1])
                except ValueError:
                    ut = "?"
                if ut is None:
                    # null: only acceptable when the conjunction cannot be expressed; the statement singles out two compounds
                    if len(sa) == 1 and len(sb) == 1 and len(sa[0]) == 1 and len(sb[0]) == 1:
                        conj = [[(None, sa[0][0][1] + sb[0][0][1])]]
                        if any(u.match_list(conj, e) for u in us for e in range(u.n)) and _plain_compound(sa[0][0][1] + sb[0][0][1]):
                            sh.violation("unify-null:%s|%s" % (A, B), "selector-unify(%s, %s) is null although the compound %s matches elements" % (A, B, sel.to_text(conj)),
                                         {"expr": exprs[ci * 6 + 2]}, {"A": A, "B": B})
                        else:
                            sh.count("unify_null_ok")
                    else:
                        sh.count("unify_null_complex")
                else:
                    try:
                        su = sel.parse(ut)
                    except sel.SelError as ex:
                        sh.violation("unify-unparseable:%s|%s" % (A, B), "selector-unify(%s, %s) = %r cannot be parsed: %s" % (A, B, ut, ex), {"expr": exprs[ci * 6 + 2]}, {"A": A, "B": B, "out": ut})
                        su = None
                    if su is not None:
                        # a result with four compounds in one complex selector can only be told apart from its operands
                        # on four-element DOMs: use them whenever the alphabet keeps that affordable
                        n_u = nodes
                        if nodes < 4 and any(len(cx) >= 4 for cx in su):
                            n_u = 4
                            sh.count("unify_judged_on_4_element_doms")
                        us2 = sel.universes(sel.atoms_of(sa + sb + su), n_u, max_bits=8_000_000 if n_u == nodes else 1_100_000)
                        v = sel.subset_violation(us2, su, sa) or sel.subset_violation(us2, su, sb)
                        if v:
                            # which complex selectors of the result are the unsound ones
                            culprits = [sel.complex_text(cx) for cx in su
                                        if sel.subset_violation(us2, [cx], sa) or sel.subset_violation(us2, [cx], sb)]
                            sh.violation("unify-unsound:%s|%s" % (A, B), "selector-unify(%s, %s) = %s matches an element not matched by both (unsound members: %s)\nelement #%d of DOM %s" % (A, B, ut, "; ".join(culprits), v[1], v[2]),
                                         {"expr": exprs[ci * 6 + 2]}, {"A": A, "B": B, "out": ut, "dom": v[2], "unsound_members": culprits,
                                                                       "every_unsound_member_mixes_next_and_following_sibling": all(" + " in c and " ~ " in c for c in culprits) and bool(culprits)})
                        else:
                            sh.count("unify_sound")
            # 3. parse round trip
            sh.ev()
            r = g[3]
            if r[0] == "ok":
                try:
                    pt = as_selector_text(r[1])
                    sp = sel.parse(pt)
                    us3 = sel.universes(sel.atoms_of(sa + sp), nodes)
                    v = sel.subset_violation(us3, sp, sa) or sel.subset_violation(us3, sa, sp)
                    if v:
                        sh.violation("parse-changes-meaning:" + A, "selector-parse(%s) = %s matches different elements: element #%d of %s" % (A, pt, v[1], v[2]), {"expr": exprs[ci * 6 + 3]}, {"A": A, "out": pt})
                    else:
                        sh.count("parse_round_trip_ok")
                except (sel.SelError, ValueError, TypeError) as ex:
                    sh.violation("parse-unparseable:" + A, "selector-parse(%s) -> %s (%s)" % (A, r[1], ex), {"expr": exprs[ci * 6 + 3]}, {"A": A})
            elif r[0] == "err":
                sh.violation("parse-rejects:" + A, "selector-parse rejects %s (%s) which the style-rule parser accepts?" % (A, r[1][:100]), {"expr": exprs[ci * 6 + 3]}, {"A": A}) if "ok" in nested[2 * ci] else sh.count("parse_and_rule_both_reject")
            # 4. nest / append vs nested rules
            for idx, which in ((4, "nest"), (5, "append")):
                sh.ev()
                r = g[idx]
                nr = nested[2 * ci + (idx - 4)]
                if r[0] == "ok" and "ok" in nr:
                    sels = rule_selectors(nr["ok"])
                    want = sels[0] if sels else None
                    try:
                        have = as_selector_text(r[1])
                    except ValueError:
                        have = None
                    if want is None or have is None or _norm(want) != _norm(have):
                        sh.violation("%s-differs:%s|%s" % (which, A, B), "selector-%s(%s, %s) = %r but the equivalent nested rule gives %r" % (which, A, B if which == "nest" else _appendable(B), have, want),
                                     {"expr": exprs[ci * 6 + idx]}, {"A": A, "B": B, "fn": have, "rule": want})
                    else:
                        sh.count(which + "_agrees")
                elif (r[0] == "ok") != ("ok" in nr):
                    if which == "append":
                        sh.count("append_status_differs_(suffix_rules_differ)")
                    else:
                        sh.violation("%s-status:%s|%s" % (which, A, B), "selector-%s %s but the nested rule %s" % (which, "succeeds" if r[0] == "ok" else "fails: " + str(r[1])[:80], "compiles" if "ok" in nr else "fails: " + str((nr.get("err") or {}).get("msg"))[:80]),
                                     {"expr": exprs[ci * 6 + idx]}, {"A": A, "B": B})
                else:
                    sh.count(which + "_both_fail")
            if nonempty:
                sh.nontrivial([A, B])
            if n < 2:
                sh.sample({"A": A, "B": B, "is-superselector": str(g[0][1])[:40], "unify": str(g[2][1])[:80]})
                n += 1
        # 5. selector-extend / selector-replace vs @extend
        ext_cases = []
        for _ in range(20):
            al = G.alphabet(rng, rng.range(3, 5))
            S = G.selector_list(rng, al)
            simple_targets = [x for x in al if not x.startswith("::")]
            T = rng.choice(simple_targets)
            E = G.complex_(rng, al, maxc=2) if rng.chance(0.6) else G.compound(rng, al)
            ext_cases.append((S, T, E))
        exprs = []
        for S, T, E in ext_cases:
            exprs += ["selector-extend(%s, %s, %s)" % (q(S), q(T), q(E)), "selector-replace(%s, %s, %s)" % (q(S), q(T), q(E))]
        got = probe.eval_many(sh.w, exprs)
        rules = sh.w.batch([{"text": "%s { x: y; }\n%s { @extend %s !optional; }" % (S, E, T)} for S, T, E in ext_cases])
        for ci, (S, T, E) in enumerate(ext_cases):
            sh.ev()
            r, rr, nr = got[2 * ci], got[2 * ci + 1], rules[ci]
            for e_, x in ((exprs[2 * ci], r), (exprs[2 * ci + 1], rr)):
                if x[0] == "panic":
                    sh.violation("panic:" + e_, "panic in `%s`: %s" % (e_, x[1]), {"expr": e_}, {"expr": e_})
            if r[0] == "ok" and "ok" in nr:
                sels = rule_selectors(nr["ok"])
                want = sels[0] if sels else ""
                try:
                    have = as_selector_text(r[1]) or ""
                except ValueError:
                    have = "?"
                if _set(want) == _set(have):
                    sh.count("extend_agrees_with_rule_textually")
                elif len(want) + len(have) > 3000:
                    sh.inconc("extend-result-too-large-for-dom-oracle")
                else:
                    # different redundancy trimming is fine: compare the *meaning* (same elements matched in every DOM)
                    try:
                        sw, shv = sel.parse(want), sel.parse(have)
                        usx = sel.universes(sel.atoms_of(sw + shv), nodes)
                        v = sel.subset_violation(usx, sw, shv) or sel.subset_violation(usx, shv, sw)
                    except sel.SelError:
                        v = None
                        sh.inconc("extend-result-unparsed")
                    if v:
                        sh.violation("extend-differs:%s|%s|%s" % (S, T, E), "selector-extend(%s, %s, %s) = %r but `%s {x:y} %s {@extend %s}` gives %r; they match different elements, e.g. element #%d of %s" % (
                            S, T, E, have, S, E, T, want, v[1], v[2]), {"expr": exprs[2 * ci]}, {"S": S, "T": T, "E": E, "fn": have, "rule": want, "dom": v[2]})
                    else:
                        sh.count("extend_agrees_with_rule_semantically")
                if rr[0] == "ok" and ":not" not in S:   # (under negation, replacing T by E is not monotone)
                    try:
                        rep = as_selector_text(rr[1]) or ""
                        srep, sext = sel.parse(rep), sel.parse(have)
                        usx = sel.universes(sel.atoms_of(srep + sext), nodes)
                        v = sel.subset_violation(usx, srep, sext)
                        if v:
                            sh.violation("replace-not-in-extend:%s|%s|%s" % (S, T, E), "selector-replace = %r matches an element that selector-extend = %r does not: element #%d of %s" % (rep, have, v[1], v[2]),
                                         {"expr": exprs[2 * ci + 1]}, {"S": S, "T": T, "E": E})
                        else:
                            sh.count("replace_within_extend")
                    except (ValueError, sel.SelError):
                        sh.inconc("replace-result-unparsed")
            elif r[0] == "err" and "err" in nr:
                sh.count("extend_both_fail")
            else:
                sh.count("extend_status_differs_(complex_target_rules)")


def _appendable(B):
    """selector-append needs a suffix that can follow `&`: use the part of B's first complex after a type selector"""
    first = B.split(",")[0].strip().split(" ")[0]
    m = re.match(r"^[a-z*]+", first)
    if m:
        first = first[m.end():]
    return first or ".q"


def _plain_compound(cp):
    kinds = [s[0] for s in cp]
    return kinds.count("type") <= 1 and kinds.count("id") <= 1 and kinds.count("pe") <= 1 and not any(s[0] == "pc" and s[2] is not None for s in cp)


def _norm(s):
    return re.sub(r"\s+", " ", s.replace(",\n", ", ")).strip()


def _set(s):
    return set(_norm(x) for x in _split_top(s) if x.strip())


def _split_top(s):
    out, depth, cur = [], 0, ""
    for ch in s:
        if ch == "(":
            depth += 1
        elif ch == ")":
            depth -= 1
        if ch == "," and depth == 0:
            out.append(cur)
            cur = ""
        else:
            cur += ch
    out.append(cur)
    return out


def replay(sh, payload):
    e = payload["replay"].get("expr")
    if e:
        print(e, "->", probe.eval_many(sh.w, [e]))
    return "see output"
