"""C15 — colours keep channels in range and agree across spellings and colour spaces.
Monitors: invariant at the probe (every colour value any workload produces: integer r/g/b in [0,255], alpha in
[0,1]); spelling agreement (name / hex / rgb() / hsl() / hwb() compare equal and print identically in compressed
mode); the 148-entry named table vs the CSS Color 4 table embedded in vp/colornames.py; round trips and
definitional laws evaluated inside the compiler over lattices of the 8-bit cube (thorough: all 2^24)."""
import re

from .. import colornames, probe

ID = "C15"
RULE = ("all 148 named colours; all 4096 short-hex colours; round trips rgb->hsl->rgb, rgb->hwb->rgb, invert∘invert, "
        "complement∘complement and identity-at-0 laws over a lattice of the 8-bit cube with its +-1 neighbours (thorough: "
        "the whole cube, sharded by red channel); function arguments in and slightly outside their legal ranges. "
        "non-trivial = a colour with at least two distinct channels or an alpha < 1; distinct = distinct colour/argument tuples "
        "(lattice colours are counted per (r,g) plane).")
ASSUMPTIONS = ["round trips run inside one compilation per red-channel slice; only mismatches are reported back through the probe"]


def plan(tier):
    return {"budget_s": 50 if tier == "quick" else 700, "profiles": ["R"], "min_evaluations": 2000}


RT_FN = """
@function rt($r, $g, $b) {
  $c: rgb($r, $g, $b);
  $x: 0;
  @if hsl(hue($c), saturation($c), lightness($c)) != $c { $x: $x + 1; }
  @if color.hwb(hue($c), color.whiteness($c), color.blackness($c)) != $c { $x: $x + 2; }
  @if invert(invert($c)) != $c { $x: $x + 4; }
  @if complement(complement($c)) != $c { $x: $x + 8; }
  @if lighten($c, 0%) != $c or darken($c, 0%) != $c { $x: $x + 16; }
  @if saturate($c, 0%) != $c or desaturate($c, 0%) != $c or adjust-hue($c, 0deg) != $c { $x: $x + 32; }
  @if mix($c, black, 100%) != $c or mix(white, $c, 0%) != $c { $x: $x + 64; }
  @if red($c) != $r or green($c) != $g or blue($c) != $b or alpha($c) != 1 { $x: $x + 128; }
  @if scale-color($c, $lightness: 0%) != $c or adjust-color($c, $red: 0) != $c or change-color($c, $blue: $b) != $c { $x: $x + 256; }
  @return $x;
}
"""
LAW_BITS = {1: "hsl(hue,saturation,lightness) round trip", 2: "hwb(hue,whiteness,blackness) round trip", 4: "invert twice",
            8: "complement twice", 16: "lighten/darken by 0", 32: "saturate/desaturate/adjust-hue by 0",
            64: "mix weight 100%/0%", 128: "channel accessors", 256: "scale/adjust/change-color identity"}


def check_color_dump(sh, d, where):
    """the invariant at the hook: integer channels in range, alpha in [0,1]"""
    if isinstance(d, dict):
        if d.get("t") == "c":
            r, g, b, a = (probe.f64(d[k]) for k in ("r", "g", "b", "a"))
            sh.count("colour_values_inspected")
            bad = [k for k, v in (("red", r), ("green", g), ("blue", b)) if not (0 <= v <= 255 and v == int(v))]
            if not (0.0 <= a <= 1.0):
                bad.append("alpha")
            if bad:
                sh.violation("channel-out-of-range:" + where, "colour with %s out of range / not integer: r=%r g=%r b=%r a=%r from %s" % (bad, r, g, b, a, where),
                             {"expr": where}, {"expr": where, "r": r, "g": g, "b": b, "a": a})
        for v in d.values():
            check_color_dump(sh, v, where)
    elif isinstance(d, list):
        for v in d:
            check_color_dump(sh, v, where)


def lattice_sheet(reds, greens, blues):
    return (RT_FN + "a {\n @each $r in " + " ".join(map(str, reds)) + " { @each $g in " + " ".join(map(str, greens)) +
            " { @each $b in " + " ".join(map(str, blues)) + " {\n  $x: rt($r, $g, $b);\n"
            "  @if $x != 0 { $_: vp-emit($r, $g, $b, $x, rgb($r, $g, $b)); }\n } } }\n}\n")


def run_lattice(sh, reds, greens, blues):
    src = probe.PRELUDE + lattice_sheet(reds, greens, blues)
    res = sh.w.compile({"text": src, "budgets": {"steps": 4000000000, "lexer_reads": 0}}, timeout=900)
    n = len(reds) * len(greens) * len(blues)
    sh.ev(n)
    if "ok" not in res:
        sh.violation("lattice-sheet-fails", "round-trip stylesheet failed: %s" % str(res)[:300], {"src": src[:2000]}, {"res": str(res)[:300]})
        return
    sh.count("lattice_colours_round_tripped", n)
    for r in reds:
        for g in greens:
            sh.nontrivial(("lat", r, g, len(blues)))
    for rec in res.get("probe", []):
        r, g, b, x = (int(probe.f64(v["bits"])) for v in rec[:4])
        check_color_dump(sh, rec[4], "rgb(%d,%d,%d)" % (r, g, b))
        for bit, name in LAW_BITS.items():
            if x & bit:
                sh.violation("law:%s:#%02x%02x%02x" % (name, r, g, b), "%s fails for rgb(%d, %d, %d)" % (name, r, g, b),
                             {"expr": "rt(%d, %d, %d)" % (r, g, b), "law": name}, {"law": name, "color": "#%02x%02x%02x" % (r, g, b)})


def run_print_denotation(sh, rng):
    from .. import cssread
    near = sorted({min(255, max(0, k * 17 + d)) for k in range(16) for d in (-1, 0, 1)})
    cols = []
    # every short-hex colour with one channel moved off the 17-grid (the decisions "can this be #rgb / a name" live here)
    for i in [x for x in range(4096) if x % sh.nshards == sh.shard]:
        a, b, c = ((i >> 8) & 15) * 17, ((i >> 4) & 15) * 17, (i & 15) * 17
        cols.append((a, b, c, 1))
        which = rng.below(3)
        d = rng.choice([-1, 1, 2, 8])
        t = [a, b, c]
        t[which] = min(255, max(0, t[which] + d))
        cols.append((t[0], t[1], t[2], 1))
    for _ in range(300):
        cols.append((rng.choice(near), rng.choice(near), rng.choice(near), rng.choice([1, 1, 1, 0.5, 0, 0.2])))
    for nm, (r, g, b) in sorted(colornames.NAMES.items())[sh.shard::sh.nshards]:
        cols.append((r, g, b, 1))
    for style in ("compressed", "expanded"):
        for base in range(0, len(cols), 256):
            chunk = cols[base:base + 256]
            decls = []
            for i, (r, g, b, a) in enumerate(chunk):
                if a == 1:
                    decls.append("p%d: rgb(%d, %d, %d); q%d: #%02x%02x%02x;" % (i, r, g, b, i, r, g, b))
                else:
                    decls.append("p%d: rgba(%d, %d, %d, %s); q%d: #%02x%02x%02x%02x;" % (i, r, g, b, a, i, r, g, b, round(a * 255)))
            res = sh.w.compile({"text": "a { %s }" % " ".join(decls), "style": style})
            if "ok" not in res:
                sh.violation("print-sheet-fails:" + style, str(res)[:300], {"style": style}, {})
                continue
            vals = dict(re.findall(r"([pq]\d+):\s*([^;}]+)", res["ok"]))
            for i, (r, g, b, a) in enumerate(chunk):
                sh.ev()
                for k in "pq":
                    txt = (vals.get("%s%d" % (k, i)) or "").strip()
                    aa = a if k == "p" else (round(a * 255) / 255.0 if a != 1 else 1)
                    want = cssread._canon_rgba(r, g, b, aa)
                    try:
                        have = cssread.canon_value(cssread.tokenize(txt))
                    except cssread.CssError:
                        have = None
                    if have != want:
                        sh.violation("printed-colour-denotes-another:%s:%s" % (style, txt), "rgba(%d, %d, %d, %s) is printed as `%s` in %s mode, which denotes %s" % (r, g, b, aa, txt, style, have),
                                     {"color": [r, g, b, a], "style": style}, {"printed": txt, "style": style, "denotes": have, "want": want})
                    else:
                        sh.count("printed_colour_denotes_itself_" + style)
                if len({r, g, b}) > 1:
                    sh.nontrivial(("print", style, r, g, b, a))


def run(sh):
    rng = sh.rng
    # --- named table + spellings (shard 0..): names split over shards
    names = sorted(colornames.NAMES)
    mine = names[sh.shard::sh.nshards]
    exprs = []
    for nm in mine:
        r, g, b = colornames.NAMES[nm]
        hx = "#%02x%02x%02x" % (r, g, b)
        exprs.append("(%s, %s, rgb(%d, %d, %d), rgba(%d, %d, %d, 1), hsl(hue(%s), saturation(%s), lightness(%s)), "
                     "color.hwb(hue(%s), color.whiteness(%s), color.blackness(%s)), %s == %s and %s == rgb(%d, %d, %d) and %s == %s, red(%s), green(%s), blue(%s))" % (
                         nm, hx, r, g, b, r, g, b, nm, nm, nm, nm, nm, nm, nm, hx, nm, r, g, b, nm.upper(), nm, nm, nm, nm))
    got = probe.eval_many(sh.w, exprs)
    for nm, g_ in zip(mine, got):
        sh.ev()
        r, g, b = colornames.NAMES[nm]
        if g_[0] != "ok" or g_[1].get("t") != "l":
            sh.violation("named-colour:" + nm, "named colour %s does not evaluate: %s" % (nm, g_), {"expr": nm}, {"name": nm})
            continue
        v = g_[1]["v"]
        check_color_dump(sh, v, nm)
        chans = [probe.f64(x["bits"]) for x in v[7:10]]
        if chans != [float(r), float(g), float(b)]:
            sh.violation("named-table:" + nm, "%s is (%s) in grass but (%d,%d,%d) in CSS Color 4" % (nm, chans, r, g, b), {"expr": nm}, {"name": nm})
        elif v[6] != {"t": "b", "v": True}:
            sh.violation("spelling-equality:" + nm, "%s is not == to its hex/rgb()/upper-case spelling" % nm, {"expr": nm}, {"name": nm})
        else:
            rgbs = [(probe.f64(c["r"]), probe.f64(c["g"]), probe.f64(c["b"]), probe.f64(c["a"])) for c in v[:6] if c.get("t") == "c"]
            if len(rgbs) != 6 or len(set(rgbs)) != 1:
                sh.violation("spelling-channels:" + nm, "spellings of %s have different channels: %s" % (nm, rgbs), {"expr": nm}, {"name": nm})
            else:
                sh.count("named_colours_agree")
                sh.nontrivial(("name", nm))
    # compressed printing of spellings
    decls = []
    for i, nm in enumerate(mine):
        r, g, b = colornames.NAMES[nm]
        decls.append("n%d: %s; h%d: #%02x%02x%02x; r%d: rgb(%d, %d, %d); s%d: hsl(hue(%s), saturation(%s), lightness(%s));" % (
            i, nm, i, r, g, b, i, r, g, b, i, nm, nm, nm))
    res = sh.w.compile({"text": "a { %s }" % " ".join(decls), "style": "compressed"})
    sh.ev()
    if "ok" in res:
        vals = dict(re.findall(r"([nhrs]\d+):([^;}]+)", res["ok"]))
        for i, nm in enumerate(mine):
            four = [vals.get("%s%d" % (k, i)) for k in "nhrs"]
            if len(set(four)) != 1 or four[0] is None:
                sh.violation("compressed-spelling:" + nm, "spellings of %s print differently in compressed mode: %s" % (nm, four), {"name": nm}, {"name": nm, "printed": four})
            else:
                sh.count("compressed_spellings_agree")
    else:
        sh.violation("compressed-sheet-fails", str(res)[:300], {"names": mine}, {})

    # --- all 4096 short hex colours: #abc == #aabbcc, channels, compressed print
    mine_hex = [i for i in range(4096) if i % sh.nshards == sh.shard]
    exprs = []
    for i in mine_hex:
        a, b, c = (i >> 8) & 15, (i >> 4) & 15, i & 15
        exprs.append("(#%x%x%x, #%x%x%x == #%x%x%x%x%x%x and #%x%x%xf == #%x%x%x)" % (a, b, c, a, b, c, a, a, b, b, c, c, a, b, c, a, b, c))
    got = probe.eval_many(sh.w, exprs)
    for i, g_ in zip(mine_hex, got):
        sh.ev()
        a, b, c = (i >> 8) & 15, (i >> 4) & 15, i & 15
        if g_[0] != "ok":
            sh.violation("short-hex:%03x" % i, "#%03x does not evaluate: %s" % (i, g_), {"expr": "#%03x" % i}, {})
            continue
        col, eq = g_[1]["v"][0], g_[1]["v"][1]
        check_color_dump(sh, col, "#%03x" % i)
        ch = [probe.f64(col[k]) for k in "rgb"]
        if ch != [a * 17.0, b * 17.0, c * 17.0] or eq != {"t": "b", "v": True}:
            sh.violation("short-hex:%03x" % i, "#%03x has channels %s / equality with long form %s" % (i, ch, eq), {"expr": "#%03x" % i}, {})
        else:
            sh.count("short_hex_agree")
            if len({a, b, c}) > 1:
                sh.nontrivial(("hex3", i))
    if sh.shard == 0:
        sh.sample({"named": "rebeccapurple", "expected": colornames.NAMES["rebeccapurple"]})
        sh.sample({"lattice_sheet": lattice_sheet([18], [52], [86, 87, 88])})

    # --- what is printed must itself be a spelling of the same colour (both styles): the printed text is read back by
    # the independent CSS reader and must denote exactly the channels the value has
    run_print_denotation(sh, rng)

    # --- lattice round trips / laws
    if sh.tier == "quick":
        base = list(range(0, 256, 17)) + [1, 127, 128, 254]
        reds = sorted(set(base))[sh.shard::sh.nshards] + [rng.range(0, 255)]
        greens = sorted(set(base + [rng.range(0, 255) for _ in range(6)]))
        blues = sorted(set(base + [x + d for x in base for d in (-1, 1) if 0 <= x + d <= 255]))
        run_lattice(sh, reds, greens, blues)
    else:
        allv = list(range(256))
        for r in allv[sh.shard::sh.nshards]:
            if sh.expired():
                sh.count("cube_slices_skipped_time")
                continue
            run_lattice(sh, [r], allv, allv)
            sh.count("cube_red_slices_done")

    # --- function arguments in and slightly outside their legal ranges
    while not sh.expired():
        exprs = []
        meta = []
        for _ in range(120):
            r, g, b = rng.range(0, 255), rng.range(0, 255), rng.range(0, 255)
            al = rng.choice([1, 0, 0.5, 0.25, 0.999])
            c = "rgba(%d, %d, %d, %s)" % (r, g, b, al)
            k = rng.below(16)
            x = rng.choice([-1, 0, 0.5, 1, 50, 100, 101, 255, 256, 300, -300, 1.5])
            if k >= 14:
                # hue turns, forwards and backwards, by less and more than a full circle: a turn is periodic (d and
                # d +- 360 give the same colour), adjust-color($hue) is adjust-hue, the hue reads back inside [0, 360),
                # turning back returns the colour, and whatever comes out is inside the value domain
                d = rng.choice([-1080, -725, -540, -400, -360, -345, -300, -270, -241, -240, -200, -180, -120, -90, -45, -1,
                                0, 1, 30, 120, 239, 240, 241, 300, 359, 360, 361, 540, 725, 1080]) + rng.choice([0, 0, 0.5, 7])
                if k == 14:
                    e = ("(adjust-hue(%s, %sdeg) == adjust-hue(%s, %sdeg)) and (adjust-hue(%s, %sdeg) == adjust-hue(%s, %sdeg)) and "
                         "(adjust-hue(%s, %sdeg) == adjust-color(%s, $hue: %sdeg)) and (change-color(%s, $hue: %s) == change-color(%s, $hue: %s)) and "
                         "(hue(adjust-hue(%s, %sdeg)) >= 0deg) and (hue(adjust-hue(%s, %sdeg)) < 360deg) and (hue(change-color(%s, $hue: %s)) >= 0deg)") % (
                        c, d, c, d + 360, c, d, c, d - 360, c, d, c, d, c, d, c, d + 720, c, d, c, d, c, d)
                    exprs.append(e)
                    meta.append(("true-if", True))
                else:
                    exprs.append("(adjust-hue(%s, %sdeg), change-color(%s, $hue: %s), adjust-color(%s, $hue: %sdeg, $lightness: 1%%))" % (c, d, c, d, c, d))
                    meta.append(("range",))
                continue
            if k >= 12:
                # adjust-/scale-/change-color with 1-3 keyword arguments of one colour space plus (often) $alpha, values
                # in and beyond their ranges: whatever is accepted must be a colour inside the value domain, and the
                # alpha of adjust-color is the clamped sum
                fn = rng.choice(["adjust-color", "adjust-color", "scale-color", "change-color"])
                space = rng.choice([["red", "green", "blue"], ["hue", "saturation", "lightness"], ["hue", "whiteness", "blackness"]])
                kws = rng.sample(space, rng.range(1, 3))
                parts = []
                for kw in kws:
                    if fn == "scale-color":
                        if kw == "hue":
                            continue
                        parts.append("$%s: %s%%" % (kw, rng.choice([-100, -50, 0, 30, 100])))
                    elif kw == "hue":
                        parts.append("$hue: %sdeg" % rng.choice([-720, -30, 0, 30, 400]))
                    elif kw in ("red", "green", "blue"):
                        parts.append("$%s: %s" % (kw, rng.choice([-300, -10, 0, 10, 255, 300])))
                    else:
                        parts.append("$%s: %s%%" % (kw, rng.choice([-100, -10, 0, 10, 100])))
                da = None
                if rng.chance(0.7):
                    if fn == "scale-color":
                        parts.append("$alpha: %s%%" % rng.choice([-100, -50, 0, 50, 100]))
                    elif fn == "change-color":
                        parts.append("$alpha: %s" % rng.choice([0, 0.3, 1]))
                    else:
                        da = rng.choice([-1, -0.5, -0.2, 0, 0.2, 0.5, 1])
                        parts.append("$alpha: %s" % da)
                if not parts:
                    continue
                e = "%s(%s, %s)" % (fn, c, ", ".join(parts))
                m = ("adjust-alpha", al, da) if da is not None else ("range",)
                exprs.append(e)
                meta.append(m)
                continue
            if k == 0:
                e, m = "rgb(%s, %s, %s)" % (r + rng.choice([-300, 0, 300]), g, x), ("range",)
            elif k == 1:
                e, m = "rgba(%d, %d, %d, %s)" % (r, g, b, rng.choice([-1, 0, 0.5, 1, 2, "150%", "-5%"])), ("range",)
            elif k == 2:
                e, m = "hsl(%s, %s%%, %s%%)" % (rng.choice([-720, -1, 0, 359, 360, 1000]), rng.choice([-10, 0, 50, 100, 150]), rng.choice([-10, 0, 50, 100, 150])), ("range",)
            elif k == 3:
                e, m = "color.hwb(%s, %s%%, %s%%)" % (rng.choice([-1, 0, 180, 720]), rng.choice([0, 30, 60, 100]), rng.choice([0, 30, 60, 100])), ("range",)
            elif k == 4:
                amt = rng.choice([0, 0.25, 1, "50%"])
                e, m = "(opacify(%s, %s), transparentize(%s, %s), opacify(%s, 1), transparentize(%s, 1))" % (c, amt, c, amt, c, c), ("opacity", al, amt)
            elif k == 5:
                p = rng.choice([-100, -50, 0, 50, 100])
                e, m = "red(scale-color(%s, $red: %d%%))" % (c, p), ("scale", r, p)
            elif k == 6:
                d = rng.choice([-300, -10, 0, 10, 300])
                e, m = "red(adjust-color(%s, $red: %d))" % (c, d), ("adjust", r, d)
            elif k == 7:
                v = rng.choice([0, 17, 255])
                e, m = "red(change-color(%s, $red: %d))" % (c, v), ("change", v)
            elif k == 8:
                d1, d2 = rng.choice([1, 5, 10]), rng.choice([1, 5, 10])
                e, m = "adjust-color(adjust-color(%s, $blue: %d), $blue: %d) == adjust-color(%s, $blue: %d)" % (c, d1, d2, c, d1 + d2), ("true-if", b + d1 + d2 <= 255)
            elif k == 9:
                e, m = "mix(%s, rgba(%d, %d, %d, %s), %s%%)" % (c, g, b, r, rng.choice([1, 0.5]), rng.choice([0, 25, 50, 100])), ("range",)
            elif k == 10:
                e, m = "(lighten(%s, %s%%), darken(%s, %s%%), saturate(%s, %s%%), desaturate(%s, 100%%), grayscale(%s), invert(%s, %s%%))" % (
                    c, rng.choice([0, 10, 100]), c, rng.choice([0, 10, 100]), c, rng.choice([0, 10, 100]), c, c, c, rng.choice([0, 50, 100])), ("range",)
            else:
                e, m = "(invert(invert(%s)) == %s) and (complement(complement(%s)) == %s)" % (c, c, c, c), ("true-if", True)
            exprs.append(e)
            meta.append(m)
        got = probe.eval_many(sh.w, exprs)
        for e, m, g_ in zip(exprs, meta, got):
            sh.ev()
            if g_[0] == "panic":
                sh.violation("panic:" + e, "panic: %s" % g_[1], {"expr": e}, {"expr": e})
                continue
            if g_[0] != "ok":
                sh.count("argument_rejected")   # rejected as documented (error) is fine; silently out-of-range is caught below
                continue
            check_color_dump(sh, g_[1], e)
            sh.nontrivial(e)
            d = g_[1]
            if m[0] == "opacity":
                al, amt = m[1], m[2]
                amt_f = 0.5 if amt == "50%" else float(amt)
                want = [min(1.0, al + amt_f), max(0.0, al - amt_f), 1.0, 0.0]
                have = [probe.f64(c["a"]) for c in d["v"]]
                if any(abs(w - h) > 1e-9 for w, h in zip(want, have)):
                    sh.violation("opacity:" + e, "opacify/transparentize do not add/subtract and clamp: alphas %s, expected %s" % (have, want), {"expr": e}, {"expr": e})
            elif m[0] == "adjust-alpha":
                have = probe.f64(d["a"]) if d.get("t") == "c" else None
                want = min(1.0, max(0.0, m[1] + m[2]))
                if have is None or abs(have - want) > 1e-9:
                    sh.violation("adjust-alpha:" + e, "`%s`: alpha is %s, the clamped sum is %s" % (e, have, want), {"expr": e}, {"expr": e, "alpha": have})
            elif m[0] in ("scale", "adjust", "change"):
                v = probe.f64(d["bits"]) if d.get("t") == "n" else None
                if m[0] == "scale":
                    r, p = m[1], m[2] / 100.0
                    x = r + (255 - r) * p if p > 0 else r + r * p
                    ok = v is not None and abs(v - x) <= 0.5 + 1e-9
                elif m[0] == "adjust":
                    ok = v == float(min(255, max(0, m[1] + m[2])))
                else:
                    ok = v == float(m[1])
                if not ok:
                    sh.violation("%s-color:%s" % (m[0], e), "`%s` = %s, definition gives %s" % (e, v, m[1:]), {"expr": e}, {"expr": e, "value": v})
            elif m[0] == "true-if" and m[1]:
                if d != {"t": "b", "v": True}:
                    sh.violation("law:" + e, "`%s` is %s" % (e, d), {"expr": e}, {"expr": e})
            sh.count("argument_cases_checked")


def finalize(tier, counters, params):
    subs = ["148 named colours", "4096 short-hex colours"]
    if tier == "thorough" and counters.get("cube_red_slices_done", 0) == 256:
        subs.append("all 2^24 8-bit colours for the round-trip/identity laws")
    return {"coverage": {"exhaustive_subspaces": subs}}


def replay(sh, payload):
    e = payload["replay"].get("expr")
    if e:
        print(e, "->", probe.eval_many(sh.w, [e], prelude=RT_FN))
    return "see output"
