"""C20 — the command-line tool mirrors the library and signals failure correctly.
Differential monitor between the real `grass` binary (built from the tree) and the library API it wraps
(the worker with StdFs in the same working directory): exit status, stdout/output-file bytes, stderr."""
import os
import shutil
import subprocess
import tempfile

from .. import corpus
from ..gen import soup

ID = "C20"
RULE = ("inputs: golden-corpus items (valid and invalid), near-miss mutations, programs with @warn/@debug/@error and "
        "@import/@use through load paths, x all 2^5 combinations of {--style compressed, --no-charset, --quiet, --no-unicode, "
        "-I dirs} x {file argument (.scss/.sass/.css), --stdin} x {stdout, output file (fresh, or already existing with longer "
        "stale content)}; plus I/O faults (missing file, "
        "directory as input, non-UTF-8 file, non-UTF-8 stdin, unwritable output). non-trivial = input non-empty and the "
        "library returned Ok or Err; distinct = distinct (input, flags, modes).")
ASSUMPTIONS = ["the library oracle runs with StdFs/StdLogger in the same working directory through the worker",
               "thorough tier uses the repository's own release profile (LTO, panic=abort) for the binary and adds valgrind memcheck on a sample"]


def plan(tier):
    if tier == "quick":
        return {"budget_s": 45, "profiles": ["R", "cli"], "min_evaluations": 150}
    return {"budget_s": 400, "profiles": ["R", "cli", "cli-release"], "min_evaluations": 150}


WARNY = [
    "@warn \"w1\"; a { b: c; @debug 1 + 1; }",
    "@debug \"d\"; @warn 'x' + y; a { b: 1px + 2px; }",
    "a { @warn \"inside\"; b: c; } @error \"boom\";",
    "@use \"dep\"; a { b: dep.$v; }",
    "@import \"dep\"; a { b: $v; }",
    "@use \"only2\"; a { b: only2.$w; }",
    "@import \"missing-file\"; a { b: c; }",
    "a { b: é; c: \"🎉\"; }",
    "a { b: 0.5; c: red; d: (1, 2); }",
    "@function f($x) { @warn $x; @return $x; } a { b: f(1) f(2); }",
    "a { b: 1px + 1s; }",
    "a { b: c",
]


def run(sh):
    rng = sh.rng
    items = [it for it in corpus.items() if "random(" not in it["input"] and "unique-id" not in it["input"]]
    d = tempfile.mkdtemp(prefix="vp-c20-%d-" % sh.shard)
    try:
        os.makedirs(os.path.join(d, "lp1"))
        os.makedirs(os.path.join(d, "lp2"))
        os.makedirs(os.path.join(d, "adir"))
        with open(os.path.join(d, "lp1", "_dep.scss"), "w") as f:
            f.write("$v: from-lp1;\n@warn \"dep1 loaded\";\n")
        with open(os.path.join(d, "lp2", "_dep.scss"), "w") as f:
            f.write("$v: from-lp2;\n")
        with open(os.path.join(d, "lp2", "only2.scss"), "w") as f:
            f.write("$w: two;\n")
        with open(os.path.join(d, "bad.scss"), "wb") as f:
            f.write(b"a { b: \xff\xfe; }")
        cli = sh.bins["cli-release"] if (sh.tier == "thorough" and "cli-release" in sh.bins) else sh.bins["cli"]
        w = sh.worker("R", cwd=d)
        n = 0
        while not sh.expired():
            k = rng.below(11)
            if k == 10:
                # large outputs: sizes straddling the usual buffer sizes (1 KiB line buffer, 8 KiB block buffer, 64 KiB
                # pipe), with preserved multi-line comments (the only line breaks of compressed output) at the start, in
                # the middle or near the end, and non-ASCII text -- every byte must arrive, whatever the destination
                size = rng.choice([600, 1000, 1100, 2000, 4000, 8100, 8300, 20000, 66000, 140000]) + rng.below(200)
                rule = lambda i: ".r%d-%s { w: %dpx; c: \"%s\"; }\n" % (i, "x" * rng.below(12), i, rng.choice(["a", "é", "\\61 b"]))
                rules = []
                total = 0
                i = 0
                while total < size:
                    r_ = rule(i)
                    rules.append(r_)
                    total += len(r_)
                    i += 1
                for pos in rng.sample([0, len(rules) // 2, max(0, len(rules) - 2), len(rules)], rng.range(0, 2)):
                    rules.insert(pos, "/*! kept\n * comment %d\n */\n" % pos)
                text, syntax = "".join(rules), "scss"
                sh.count("large_output_cases")
            elif k < 5:
                it = rng.choice(items)
                text, syntax = it["input"], it["spec"].get("syntax") or "scss"
            elif k < 7:
                text, syntax = soup.mutate(rng, rng.choice(items)["input"], rng.choice(items)["input"]), "scss"
            else:
                text, syntax = rng.choice(WARNY), "scss"
            flags = {"compressed": rng.chance(0.5), "no_charset": rng.chance(0.5), "quiet": rng.chance(0.5),
                     "no_unicode": rng.chance(0.5), "lp": rng.choice([[], ["lp1"], ["lp2"], ["lp1", "lp2"], ["lp2", "lp1"]])}
            use_stdin = rng.chance(0.4) and syntax == "scss"
            to_file = rng.chance(0.4)
            fault = rng.below(40) if rng.chance(0.08) else None
            one_case(sh, w, cli, d, text, syntax, flags, use_stdin, to_file, fault)
            if n < 2:
                sh.sample({"input": text[:200], "flags": flags, "stdin": use_stdin, "output_file": to_file})
                n += 1
        if sh.tier == "thorough" and sh.shard == 0:
            valgrind_stage(sh, cli, d, items)
    finally:
        shutil.rmtree(d, ignore_errors=True)


def argv_for(cli, flags, inp, outp, use_stdin):
    a = [cli]
    if flags["compressed"]:
        a += ["--style", "compressed"]
    if flags["no_charset"]:
        a.append("--no-charset")
    if flags["quiet"]:
        a.append("--quiet")
    if flags["no_unicode"]:
        a.append("--no-unicode")
    for p in flags["lp"]:
        a += ["-I", p]
    if use_stdin:
        a.append("--stdin")
    else:
        a.append(inp)
    if outp:
        a.append(outp)
    return a


def one_case(sh, w, cli, d, text, syntax, flags, use_stdin, to_file, fault):
    ext = {"scss": "scss", "sass": "sass", "css": "css"}[syntax]
    inp = "in.%s" % ext
    data = text.encode("utf-8", "surrogatepass") if "\ud800" <= max(text or " ") else text.encode("utf-8", "replace")
    try:
        data = text.encode("utf-8")
    except UnicodeEncodeError:
        return
    with open(os.path.join(d, inp), "wb") as f:
        f.write(data)
    outp = "out.css" if to_file else None
    if outp:
        # a user re-runs the compiler over the output of the previous run: half of the cases start with an existing,
        # longer output file (stale bytes must not survive), the other half with none
        if sh.rng.chance(0.5):
            with open(os.path.join(d, outp), "wb") as f:
                f.write(b"/* stale output of an earlier run */\n" + b".stale { y: z; }\n" * sh.rng.range(1, 400))
            sh.count("output_file_preexisting")
        elif os.path.exists(os.path.join(d, outp)):
            os.remove(os.path.join(d, outp))
    stdin_data = data if use_stdin else None
    fault_name = None
    if fault is not None:
        fault_name = ["missing", "directory", "non-utf8-file", "non-utf8-stdin", "unwritable-output"][fault % 5]
        if fault_name == "missing":
            inp, use_stdin = "does-not-exist.scss", False
        elif fault_name == "directory":
            inp, use_stdin = "adir", False
        elif fault_name == "non-utf8-file":
            inp, use_stdin = "bad.scss", False
        elif fault_name == "non-utf8-stdin":
            use_stdin, stdin_data = True, b"a { b: \xff; }"
        else:
            outp, to_file = "no-such-dir/out.css", True
    argv = argv_for(cli, flags, inp, outp, use_stdin)
    try:
        p = subprocess.run(argv, cwd=d, input=stdin_data if use_stdin else None, stdout=subprocess.PIPE, stderr=subprocess.PIPE, timeout=60)
    except subprocess.TimeoutExpired:
        sh.inconc("cli-timeout")
        return
    sh.ev()
    facts = {"argv": argv[1:], "input": text[:2000], "stdin": use_stdin, "fault": fault_name, "exit": p.returncode,
             "stdout": p.stdout[:400].decode("utf-8", "replace"), "stderr": p.stderr[:600].decode("utf-8", "replace")}
    rp = {"argv": argv[1:], "input": text, "stdin": use_stdin, "fault": fault_name, "syntax": syntax}
    key = "%s|%s|%s" % (" ".join(argv[1:]), fault_name, _h(text))
    if fault_name in ("missing", "directory", "non-utf8-file", "non-utf8-stdin", "unwritable-output"):
        if p.returncode == 0:
            sh.violation("io-error-exit-0:" + key, "I/O fault `%s` but the CLI exited 0" % fault_name, rp, facts)
        elif p.stdout:
            sh.violation("io-error-stdout:" + key, "I/O fault `%s`: CSS/bytes on stdout: %r" % (fault_name, p.stdout[:100]), rp, facts)
        elif not p.stderr.strip():
            sh.violation("io-error-silent:" + key, "I/O fault `%s`: nothing on stderr" % fault_name, rp, facts)
        else:
            sh.count("io_fault_" + fault_name + "_signalled")
            sh.nontrivial(key)
        return
    # library oracle: same options, same files, same cwd
    spec = {"fs": "std", "logger": "std", "style": "compressed" if flags["compressed"] else "expanded",
            "charset": not flags["no_charset"], "quiet": flags["quiet"], "unicode": not flags["no_unicode"],
            "load_paths": flags["lp"], "probes": False, "budgets": {"steps": 0, "call_depth": 0, "lexer_reads": 0, "stall_base": 0}}
    if use_stdin:
        spec["text"] = text
    else:
        spec["entry"] = inp
    lib = w.compile(spec, timeout=60)
    if "ok" in lib:
        want = lib["ok"].encode("utf-8")
        if p.returncode != 0:
            sh.violation("exit-nonzero-on-success:" + key, "library returns CSS but the CLI exited %d: %s" % (p.returncode, facts["stderr"][:200]), rp, facts)
            return
        if to_file:
            try:
                got = open(os.path.join(d, outp), "rb").read()
            except OSError:
                got = None
            if p.stdout:
                sh.violation("stdout-with-output-file:" + key, "output file given but CSS on stdout", rp, facts)
                return
        else:
            got = p.stdout
        if got != want:
            sh.violation("css-differs:" + key, "CLI output differs from the library's\nlibrary: %r\ncli:     %r" % (want[:200], (got or b"")[:200]), rp,
                         dict(facts, library=want[:400].decode("utf-8", "replace")))
            return
        lib_err = (lib.get("fd12") or "")
        if flags["quiet"] and p.stderr:
            sh.violation("quiet-not-silent:" + key, "--quiet but stderr has %r" % p.stderr[:200], rp, facts)
            return
        if lib_err.encode("utf-8") != p.stderr:
            sh.violation("stderr-differs:" + key, "warnings on stderr differ from the library's StdLogger output\nlibrary: %r\ncli: %r" % (lib_err[:200], p.stderr[:200]), rp, facts)
            return
        sh.count("agree_ok")
        if text.strip():
            sh.nontrivial(key)
    elif "err" in lib:
        disp = lib["err"].get("disp")
        if p.returncode == 0:
            sh.violation("exit-0-on-error:" + key, "library returns an error but the CLI exited 0\nerror: %s" % str(disp)[:200], rp, facts)
            return
        if p.stdout:
            sh.violation("stdout-on-error:" + key, "compile error but stdout is not empty: %r" % p.stdout[:120], rp, facts)
            return
        if isinstance(disp, str):
            want_err = (lib.get("fd12") or "") + disp + "\n"
            if p.stderr.decode("utf-8", "replace") != want_err:
                sh.violation("stderr-differs-on-error:" + key, "stderr is not the rendered error (+ warnings)\nwant: %r\ngot:  %r" % (want_err[:300], p.stderr[:300]), rp, facts)
                return
        sh.count("agree_err")
        if text.strip():
            sh.nontrivial(key)
    elif "panic" in lib or "died" in lib:
        # the library itself crashes (C01's subject); the CLI must at least not report success
        if p.returncode == 0:
            sh.violation("exit-0-on-crash:" + key, "library panics but CLI exited 0", rp, facts)
        else:
            sh.count("agree_crash_nonzero")
    else:
        sh.inconc("library-oracle-unavailable")


def valgrind_stage(sh, cli, d, items):
    rng = sh.rng
    for i in range(40):
        it = rng.choice(items)
        with open(os.path.join(d, "vg.scss"), "w") as f:
            f.write(it["input"])
        try:
            p = subprocess.run(["valgrind", "--error-exitcode=99", "--quiet", "--leak-check=no", cli, "vg.scss"], cwd=d,
                               stdout=subprocess.PIPE, stderr=subprocess.PIPE, timeout=300)
        except (subprocess.TimeoutExpired, OSError):
            sh.inconc("valgrind-timeout-or-missing")
            continue
        sh.ev()
        sh.count("valgrind_invocations")
        if p.returncode == 99:
            sh.violation("memcheck:" + _h(it["input"]), "valgrind memcheck reported an error:\n" + p.stderr.decode("utf-8", "replace")[-1500:],
                         {"input": it["input"], "argv": ["vg.scss"]}, {"input": it["input"]})


def _h(text):
    from ..core import h64
    return "%016x" % h64(text)


def replay(sh, payload):
    r = payload["replay"]
    d = tempfile.mkdtemp(prefix="vp-c20-replay-")
    try:
        print("argv:", r["argv"], "stdin:", r.get("stdin"), "fault:", r.get("fault"))
        print(r["input"][:500])
    finally:
        shutil.rmtree(d, ignore_errors=True)
    return "see output (re-run the quick check to re-judge)"
