//! `vw` — verification worker. Links the real grass_compiler from the repo
//! working tree (feature `verif`) and executes compilation requests, returning
//! the event log of each execution (result, Fs trace, Logger trace, probe
//! values, bytes written to fd 1/2, hook counters).
//!
//! Protocol: one JSON object per line. Default transport: read fd 3, write
//! fd 4 (fds 0/1/2 belong to the code under test; 1 and 2 are redirected to a
//! memfd so that writes by the library are observable). `--in F --out G`
//! uses plain files instead (for Miri / sanitizer runs), without fd capture.

use std::cell::RefCell;
use std::collections::{BTreeMap, BTreeSet};
use std::io::{self, BufRead, BufReader, Write};
use std::panic::{self, AssertUnwindSafe};
use std::path::{Component, Path, PathBuf};

use grass_compiler as grass;
use grass::sass_value::{
    ArgumentResult, Brackets, CalculationArg, ListSeparator, QuoteKind, SassFunction, Unit, Value,
};
use serde_json::{json, Map, Value as J};

// ---------------------------------------------------------------- panics

thread_local! {
    static PANIC_INFO: RefCell<Option<(String, String)>> = RefCell::new(None);
    static PROBE: RefCell<Vec<J>> = RefCell::new(Vec::new());
}

fn install_panic_hook() {
    panic::set_hook(Box::new(|info| {
        let loc = info
            .location()
            .map(|l| format!("{}:{}", l.file(), l.line()))
            .unwrap_or_default();
        let msg = if let Some(s) = info.payload().downcast_ref::<&str>() {
            (*s).to_string()
        } else if let Some(s) = info.payload().downcast_ref::<String>() {
            s.clone()
        } else {
            "<non-string payload>".to_string()
        };
        PANIC_INFO.with(|p| {
            let mut p = p.borrow_mut();
            // keep the first panic of a request (later ones are consequences)
            if p.is_none() {
                *p = Some((msg, loc));
            }
        });
    }));
}

// ---------------------------------------------------------------- paths

fn normalize(p: &Path) -> PathBuf {
    let mut out: Vec<Component> = Vec::new();
    for c in p.components() {
        match c {
            Component::CurDir => {}
            Component::ParentDir => match out.last() {
                Some(Component::Normal(_)) => {
                    out.pop();
                }
                Some(Component::RootDir) => {}
                _ => out.push(c),
            },
            c => out.push(c),
        }
    }
    let mut pb = PathBuf::new();
    for c in out {
        pb.push(c.as_os_str());
    }
    pb
}

// ---------------------------------------------------------------- Fs

#[derive(Debug)]
enum Entry {
    Bytes(Vec<u8>),
    ReadErr(String),
}

#[derive(Debug)]
struct MemFs {
    files: BTreeMap<PathBuf, Entry>,
    dirs: BTreeSet<PathBuf>,
    trace: RefCell<Vec<J>>,
    canon_identity: bool,
}

impl MemFs {
    fn new(files: BTreeMap<PathBuf, Entry>, canon_identity: bool) -> Self {
        let mut dirs = BTreeSet::new();
        for p in files.keys() {
            let mut cur = p.parent();
            while let Some(d) = cur {
                dirs.insert(d.to_path_buf());
                cur = d.parent();
            }
        }
        dirs.insert(PathBuf::from(""));
        MemFs {
            files,
            dirs,
            trace: RefCell::new(Vec::new()),
            canon_identity,
        }
    }
    fn rec(&self, op: &str, path: &Path, res: J) {
        self.trace
            .borrow_mut()
            .push(json!([op, path.to_string_lossy(), res]));
    }
}

impl grass::Fs for MemFs {
    fn is_dir(&self, path: &Path) -> bool {
        let r = self.dirs.contains(&normalize(path));
        self.rec("is_dir", path, json!(r));
        r
    }
    fn is_file(&self, path: &Path) -> bool {
        let r = self.files.contains_key(&normalize(path));
        self.rec("is_file", path, json!(r));
        r
    }
    fn read(&self, path: &Path) -> io::Result<Vec<u8>> {
        match self.files.get(&normalize(path)) {
            Some(Entry::Bytes(b)) => {
                self.rec("read", path, json!(true));
                Ok(b.clone())
            }
            Some(Entry::ReadErr(m)) => {
                self.rec("read", path, json!(false));
                Err(io::Error::new(io::ErrorKind::PermissionDenied, m.clone()))
            }
            None => {
                self.rec("read", path, json!(false));
                Err(io::Error::new(io::ErrorKind::NotFound, "no such file (memfs)"))
            }
        }
    }
    fn canonicalize(&self, path: &Path) -> io::Result<PathBuf> {
        if self.canon_identity {
            self.rec("canonicalize", path, json!(path.to_string_lossy()));
            return Ok(path.to_path_buf());
        }
        let n = normalize(path);
        if self.files.contains_key(&n) || self.dirs.contains(&n) {
            self.rec("canonicalize", path, json!(n.to_string_lossy()));
            Ok(n)
        } else {
            self.rec("canonicalize", path, J::Null);
            Err(io::Error::new(io::ErrorKind::NotFound, "no such file (memfs)"))
        }
    }
}

/// StdFs with a trace (used for the CLI differential oracle and decoy runs)
#[derive(Debug)]
struct TracedStdFs {
    trace: RefCell<Vec<J>>,
}

impl grass::Fs for TracedStdFs {
    fn is_dir(&self, path: &Path) -> bool {
        let r = grass::StdFs.is_dir(path);
        self.trace
            .borrow_mut()
            .push(json!(["is_dir", path.to_string_lossy(), r]));
        r
    }
    fn is_file(&self, path: &Path) -> bool {
        let r = grass::StdFs.is_file(path);
        self.trace
            .borrow_mut()
            .push(json!(["is_file", path.to_string_lossy(), r]));
        r
    }
    fn read(&self, path: &Path) -> io::Result<Vec<u8>> {
        let r = grass::StdFs.read(path);
        self.trace
            .borrow_mut()
            .push(json!(["read", path.to_string_lossy(), r.is_ok()]));
        r
    }
    fn canonicalize(&self, path: &Path) -> io::Result<PathBuf> {
        let r = grass::StdFs.canonicalize(path);
        self.trace.borrow_mut().push(json!([
            "canonicalize",
            path.to_string_lossy(),
            r.as_ref().ok().map(|p| p.to_string_lossy().into_owned())
        ]));
        r
    }
}

// ---------------------------------------------------------------- Logger

#[derive(Debug, Default)]
struct TraceLogger {
    trace: RefCell<Vec<J>>,
}

impl grass::Logger for TraceLogger {
    fn debug(&self, location: grass::codemap::SpanLoc, message: &str) {
        self.trace.borrow_mut().push(json!([
            "debug",
            location.file.name(),
            location.begin.line + 1,
            location.begin.column + 1,
            message
        ]));
    }
    fn warn(&self, location: grass::codemap::SpanLoc, message: &str) {
        self.trace.borrow_mut().push(json!([
            "warn",
            location.file.name(),
            location.begin.line + 1,
            location.begin.column + 1,
            message
        ]));
    }
}

// ---------------------------------------------------------------- probe

fn bits(f: f64) -> String {
    format!("{:016x}", f.to_bits())
}

fn unit_list(us: &[Unit]) -> Vec<String> {
    us.iter().map(|u| u.to_string()).collect()
}

fn dump_unit(u: &Unit) -> (Vec<String>, Vec<String>) {
    match u {
        Unit::None => (vec![], vec![]),
        Unit::Complex(c) => (unit_list(&c.numer), unit_list(&c.denom)),
        u => (vec![u.to_string()], vec![]),
    }
}

fn sep_str(s: ListSeparator) -> &'static str {
    match s {
        ListSeparator::Space => "space",
        ListSeparator::Comma => "comma",
        ListSeparator::Slash => "slash",
        ListSeparator::Undecided => "undecided",
    }
}

fn dump_calc_arg(a: &CalculationArg) -> J {
    match a {
        CalculationArg::Number(n) => {
            let (nu, du) = dump_unit(&n.unit);
            json!({"t":"n","bits":bits(n.num.0),"nu":nu,"du":du})
        }
        CalculationArg::Calculation(c) => {
            json!({"t":"calc","name":c.name.to_string(),"args":c.args.iter().map(dump_calc_arg).collect::<Vec<_>>()})
        }
        CalculationArg::String(s) => json!({"t":"cs","s":s}),
        CalculationArg::Interpolation(s) => json!({"t":"ci","s":s}),
        CalculationArg::Operation { lhs, op, rhs } => {
            json!({"t":"op","op":format!("{:?}", op),"l":dump_calc_arg(lhs),"r":dump_calc_arg(rhs)})
        }
    }
}

fn dump_value(v: &Value) -> J {
    match v {
        Value::True => json!({"t":"b","v":true}),
        Value::False => json!({"t":"b","v":false}),
        Value::Null => json!({"t":"null"}),
        Value::Dimension(n) => {
            let (nu, du) = dump_unit(&n.unit);
            let mut o = json!({"t":"n","bits":bits(n.num.0),"nu":nu,"du":du});
            if n.as_slash.is_some() {
                o["slash"] = json!(true);
            }
            o
        }
        Value::List(items, sep, br) => json!({
            "t":"l",
            "sep":sep_str(*sep),
            "br":matches!(br, Brackets::Bracketed),
            "v":items.iter().map(dump_value).collect::<Vec<_>>()
        }),
        Value::Color(c) => {
            let (h, s, l, _a) = c.as_hsla();
            json!({
                "t":"c",
                "r":bits(c.red().0),"g":bits(c.green().0),"b":bits(c.blue().0),"a":bits(c.alpha().0),
                "h":bits(h.0),"s":bits(s.0),"l":bits(l.0)
            })
        }
        Value::String(s, q) => json!({"t":"s","v":s,"q":matches!(q, QuoteKind::Quoted)}),
        Value::Map(m) => json!({
            "t":"m",
            "v":m.iter().map(|(k, v)| json!([dump_value(&k.node), dump_value(v)])).collect::<Vec<_>>()
        }),
        Value::ArgList(a) => {
            // note: does not touch keywords() (that would flip were_keywords_accessed)
            json!({
                "t":"al",
                "sep":sep_str(a.separator),
                "v":a.elems.iter().map(dump_value).collect::<Vec<_>>()
            })
        }
        Value::FunctionRef(f) => {
            let kind = match &**f {
                SassFunction::Builtin(..) => "builtin",
                SassFunction::UserDefined(..) => "user",
                SassFunction::Plain { .. } => "plain",
            };
            json!({"t":"f","name":f.name().to_string(),"kind":kind})
        }
        Value::Calculation(c) => json!({
            "t":"calc","name":c.name.to_string(),
            "args":c.args.iter().map(dump_calc_arg).collect::<Vec<_>>()
        }),
    }
}

/// `vp-emit($args...)`: record every positional argument; returns null.
fn vp_emit(mut args: ArgumentResult, _v: &mut grass::Visitor) -> grass::Result<Value> {
    let mut vals = Vec::new();
    let mut i = 0;
    while let Some(v) = args.get_positional(i) {
        vals.push(dump_value(&v.node));
        i += 1;
    }
    PROBE.with(|p| p.borrow_mut().push(J::Array(vals)));
    Ok(Value::Null)
}

/// `vp-id($v)`: identity (an opaque call the parser cannot fold).
fn vp_id(mut args: ArgumentResult, _v: &mut grass::Visitor) -> grass::Result<Value> {
    Ok(args.get_positional(0).map(|v| v.node).unwrap_or(Value::Null))
}

// ---------------------------------------------------------------- one compilation

fn unhex(s: &str) -> Vec<u8> {
    let b = s.as_bytes();
    let mut out = Vec::with_capacity(b.len() / 2);
    let h = |c: u8| -> u8 {
        match c {
            b'0'..=b'9' => c - b'0',
            b'a'..=b'f' => c - b'a' + 10,
            b'A'..=b'F' => c - b'A' + 10,
            _ => 0,
        }
    };
    let mut i = 0;
    while i + 1 < b.len() {
        out.push(h(b[i]) << 4 | h(b[i + 1]));
        i += 2;
    }
    out
}

fn hex(b: &[u8]) -> String {
    let mut s = String::with_capacity(b.len() * 2);
    for x in b {
        s.push_str(&format!("{:02x}", x));
    }
    s
}

fn err_to_json(e: Box<grass::Error>) -> J {
    let display = panic::catch_unwind(AssertUnwindSafe(|| e.to_string()));
    let disp = match display {
        Ok(s) => json!(s),
        Err(_) => {
            let info = PANIC_INFO.with(|p| p.borrow_mut().take());
            json!({"panic": info.map(|(m, l)| json!({"msg":m,"loc":l}))})
        }
    };
    let e2 = (*e).clone();
    let kind = panic::catch_unwind(AssertUnwindSafe(move || e2.kind()));
    match kind {
        Ok(grass::ErrorKind::ParseError {
            message,
            loc,
            unicode,
        }) => {
            let src = loc.file.source();
            let nlines = src.split('\n').count();
            json!({
                "kind":"parse","msg":message,"file":loc.file.name(),
                "bl":loc.begin.line,"bc":loc.begin.column,"el":loc.end.line,"ec":loc.end.column,
                "unicode":unicode,"src_len":src.len(),"nlines":nlines,"disp":disp
            })
        }
        Ok(grass::ErrorKind::IoError(ioe)) => {
            json!({"kind":"io","msg":ioe.to_string(),"disp":disp})
        }
        Ok(grass::ErrorKind::FromUtf8Error(s)) => json!({"kind":"utf8","msg":s,"disp":disp}),
        Ok(_) => json!({"kind":"other","disp":disp}),
        Err(_) => {
            let info = PANIC_INFO.with(|p| p.borrow_mut().take());
            json!({"kind":"kind_panicked","panic": info.map(|(m, l)| json!({"msg":m,"loc":l})),"disp":disp})
        }
    }
}

fn run_spec(spec: &J) -> J {
    let mut out = Map::new();
    // file system
    let mut files = BTreeMap::new();
    if let Some(m) = spec.get("files").and_then(|f| f.as_object()) {
        for (k, v) in m {
            let e = if let Some(s) = v.as_str() {
                Entry::Bytes(s.as_bytes().to_vec())
            } else if let Some(h) = v.get("hex").and_then(|h| h.as_str()) {
                Entry::Bytes(unhex(h))
            } else if let Some(m) = v.get("err").and_then(|h| h.as_str()) {
                Entry::ReadErr(m.to_string())
            } else {
                Entry::Bytes(Vec::new())
            };
            files.insert(normalize(Path::new(k)), e);
        }
    }
    let fs_kind = spec.get("fs").and_then(|v| v.as_str()).unwrap_or("mem");
    let memfs = MemFs::new(
        files,
        spec.get("canon_identity").and_then(|v| v.as_bool()).unwrap_or(false),
    );
    let stdfs = TracedStdFs {
        trace: RefCell::new(Vec::new()),
    };
    let logger = TraceLogger::default();

    let b = |k: &str, d: bool| spec.get(k).and_then(|v| v.as_bool()).unwrap_or(d);
    let mut opts = grass::Options::default();
    opts = match fs_kind {
        "std" => opts.fs(&stdfs),
        "null" => opts.fs(&grass::NullFs),
        _ => opts.fs(&memfs),
    };
    let logger_kind = spec.get("logger").and_then(|v| v.as_str()).unwrap_or("custom");
    opts = match logger_kind {
        "std" => opts.logger(&grass::StdLogger),
        "null" => opts.logger(&grass::NullLogger),
        _ => opts.logger(&logger),
    };
    opts = opts.style(match spec.get("style").and_then(|v| v.as_str()) {
        Some("compressed") => grass::OutputStyle::Compressed,
        _ => grass::OutputStyle::Expanded,
    });
    opts = opts
        .quiet(b("quiet", false))
        .unicode_error_messages(b("unicode", true))
        .allows_charset(b("charset", true));
    match spec.get("syntax").and_then(|v| v.as_str()) {
        Some("scss") => opts = opts.input_syntax(grass::InputSyntax::Scss),
        Some("sass") => opts = opts.input_syntax(grass::InputSyntax::Sass),
        Some("css") => opts = opts.input_syntax(grass::InputSyntax::Css),
        _ => {}
    }
    if let Some(lp) = spec.get("load_paths").and_then(|v| v.as_array()) {
        for p in lp {
            if let Some(s) = p.as_str() {
                opts = opts.load_path(s);
            }
        }
    }
    if b("probes", true) {
        opts = opts
            .add_custom_fn("vp-emit", grass::Builtin::new(vp_emit))
            .add_custom_fn("vp-id", grass::Builtin::new(vp_id));
    }

    // budgets
    let bud = spec.get("budgets");
    let bu = |k: &str, d: u64| {
        bud.and_then(|b| b.get(k))
            .and_then(|v| v.as_u64())
            .unwrap_or(d)
    };
    let budgets = grass::verif::Budgets {
        lexer_reads: bu("lexer_reads", 200_000_000),
        steps: bu("steps", 5_000_000),
        call_depth: bu("call_depth", 2_000),
        stall_base: bu("stall_base", 1_000),
        stall_per_token: bu("stall_per_token", 64),
    };
    grass::verif::reset(budgets);
    PROBE.with(|p| p.borrow_mut().clear());
    PANIC_INFO.with(|p| *p.borrow_mut() = None);

    let mode = spec.get("mode").and_then(|v| v.as_str()).unwrap_or("compile");
    let text = spec.get("text").and_then(|v| v.as_str());
    let name = spec.get("name").and_then(|v| v.as_str());
    let entry = spec.get("entry").and_then(|v| v.as_str());

    #[cfg(not(miri))]
    let cap_off = CAPTURE.get().map(|c| c.offset());
    let res = panic::catch_unwind(AssertUnwindSafe(|| -> Result<Option<String>, Box<grass::Error>> {
        match (mode, text, entry) {
            ("parse", Some(t), _) => {
                grass::parse_stylesheet(t.to_string(), name.unwrap_or("stdin"), &opts).map(|_| None)
            }
            (_, Some(t), _) => grass::from_string(t.to_string(), &opts).map(Some),
            (_, None, Some(p)) => grass::from_path(p, &opts).map(Some),
            _ => Ok(None),
        }
    }));
    let snap = grass::verif::snapshot();
    grass::verif::reset(grass::verif::Budgets::default());
    #[cfg(not(miri))]
    if let (Some(c), Some(off)) = (CAPTURE.get(), cap_off) {
        let bytes = c.read_from(off);
        if !bytes.is_empty() {
            out.insert("fd12".into(), json!(String::from_utf8_lossy(&bytes)));
        }
    }

    match res {
        Ok(Ok(Some(css))) => {
            if std::str::from_utf8(css.as_bytes()).is_ok() {
                out.insert("ok".into(), json!(css));
            } else {
                out.insert("ok_hex".into(), json!(hex(css.as_bytes())));
            }
        }
        Ok(Ok(None)) => {
            out.insert("ok".into(), J::Null);
        }
        Ok(Err(e)) => {
            out.insert("err".into(), err_to_json(e));
        }
        Err(_) => {
            let info = PANIC_INFO.with(|p| p.borrow_mut().take());
            let (m, l) = info.unwrap_or_default();
            out.insert("panic".into(), json!({"msg":m,"loc":l}));
        }
    }
    drop(opts);
    let fs_trace = match fs_kind {
        "std" => stdfs.trace.into_inner(),
        _ => memfs.trace.into_inner(),
    };
    if !fs_trace.is_empty() {
        out.insert("fs".into(), J::Array(fs_trace));
    }
    let log = logger.trace.into_inner();
    if !log.is_empty() {
        out.insert("log".into(), J::Array(log));
    }
    let probe = PROBE.with(|p| std::mem::take(&mut *p.borrow_mut()));
    if !probe.is_empty() {
        out.insert("probe".into(), J::Array(probe));
    }
    out.insert(
        "steps".into(),
        json!([
            snap.lexer_reads,
            snap.max_reads_since_advance,
            snap.max_stall_buf_len,
            snap.steps,
            snap.max_call_depth
        ]),
    );
    J::Object(out)
}

// ---------------------------------------------------------------- requests

struct Persist {
    tx: std::sync::mpsc::Sender<J>,
    rx: std::sync::mpsc::Receiver<J>,
    used: usize,
    stack_mb: usize,
}

impl Persist {
    fn spawn(stack_mb: usize) -> Persist {
        let (tx, rx_in) = std::sync::mpsc::channel::<J>();
        let (tx_out, rx) = std::sync::mpsc::channel::<J>();
        std::thread::Builder::new()
            .stack_size(stack_mb << 20)
            .spawn(move || {
                while let Ok(spec) = rx_in.recv() {
                    if tx_out.send(run_spec(&spec)).is_err() {
                        break;
                    }
                }
            })
            .expect("spawn");
        Persist { tx, rx, used: 0, stack_mb }
    }
}

thread_local! {
    static PERSIST: RefCell<Option<Persist>> = RefCell::new(None);
}

fn run_request(req: &J, default_stack_mb: usize) -> J {
    let id = req.get("id").cloned().unwrap_or(J::Null);
    let stack_mb = req
        .get("stack_mb")
        .and_then(|v| v.as_u64())
        .map(|v| v as usize)
        .unwrap_or(default_stack_mb);
    if let Some(bt) = req.get("batch").and_then(|v| v.as_array()) {
        let mut results = Vec::new();
        if !req.get("fresh").and_then(|v| v.as_bool()).unwrap_or(false) {
            // persistent compile thread: realistic "many compilations on one thread" usage and
            // far fewer page faults than a thread per compilation; recycled regularly so the
            // thread-local interner stays small.
            let recycle = req.get("recycle").and_then(|v| v.as_u64()).unwrap_or(400) as usize;
            PERSIST.with(|p| {
                let mut p = p.borrow_mut();
                for spec in bt {
                    if p.as_ref().map_or(true, |t| t.used >= recycle || t.stack_mb != stack_mb) {
                        *p = Some(Persist::spawn(stack_mb));
                    }
                    let t = p.as_mut().unwrap();
                    t.used += 1;
                    let r = match t.tx.send(spec.clone()) {
                        Ok(()) => t.rx.recv().unwrap_or_else(|_| json!({"thread_panicked": true})),
                        Err(_) => json!({"thread_panicked": true}),
                    };
                    if r.get("thread_panicked").is_some() {
                        *p = None;
                    }
                    results.push(r);
                }
            });
            return json!({"id": id, "batch": results});
        }
        for spec in bt {
            let spec = spec.clone();
            let h = std::thread::Builder::new()
                .stack_size(stack_mb << 20)
                .spawn(move || run_spec(&spec))
                .expect("spawn");
            results.push(h.join().unwrap_or_else(|_| json!({"thread_panicked": true})));
        }
        return json!({"id": id, "batch": results});
    }
    let threads: Vec<Vec<J>> = if let Some(t) = req.get("threads").and_then(|v| v.as_array()) {
        t.iter()
            .map(|l| l.as_array().cloned().unwrap_or_default())
            .collect()
    } else if let Some(h) = req.get("history").and_then(|v| v.as_array()) {
        vec![h.clone()]
    } else {
        vec![vec![req.clone()]]
    };
    let barrier = std::sync::Arc::new(std::sync::Barrier::new(threads.len()));
    let mut handles = Vec::new();
    for list in threads {
        let barrier = barrier.clone();
        let h = std::thread::Builder::new()
            .stack_size(stack_mb << 20)
            .spawn(move || {
                barrier.wait();
                list.iter().map(run_spec).collect::<Vec<J>>()
            })
            .expect("spawn");
        handles.push(h);
    }
    let mut results = Vec::new();
    for h in handles {
        match h.join() {
            Ok(r) => results.push(J::Array(r)),
            Err(_) => results.push(json!({"thread_panicked": true})),
        }
    }
    json!({"id": id, "results": results})
}

// ---------------------------------------------------------------- fd capture

#[cfg(not(miri))]
static CAPTURE: std::sync::OnceLock<cap::Cap> = std::sync::OnceLock::new();

#[cfg(not(miri))]
mod cap {
    pub struct Cap {
        fd: i32,
    }
    impl Cap {
        pub fn install() -> Option<Cap> {
            unsafe {
                let name = b"vwcap\0";
                let fd = libc::memfd_create(name.as_ptr() as *const libc::c_char, 0);
                if fd < 0 {
                    return None;
                }
                // O_APPEND so that fd1 and fd2 writers interleave instead of overwrite
                let fl = libc::fcntl(fd, libc::F_GETFL);
                libc::fcntl(fd, libc::F_SETFL, fl | libc::O_APPEND);
                if libc::dup2(fd, 1) < 0 || libc::dup2(fd, 2) < 0 {
                    return None;
                }
                Some(Cap { fd })
            }
        }
        pub fn offset(&self) -> i64 {
            unsafe { libc::lseek(self.fd, 0, libc::SEEK_END) }
        }
        pub fn read_from(&self, off: i64) -> Vec<u8> {
            let end = self.offset();
            let mut buf = vec![0u8; (end - off).max(0) as usize];
            if !buf.is_empty() {
                unsafe {
                    libc::pread(
                        self.fd,
                        buf.as_mut_ptr() as *mut libc::c_void,
                        buf.len(),
                        off,
                    );
                }
            }
            buf
        }
    }
}

fn main() {
    install_panic_hook();
    let args: Vec<String> = std::env::args().collect();
    let mut in_path = None;
    let mut out_path = None;
    let mut stack_mb = 256usize;
    let mut fd_in: i32 = 3;
    let mut fd_out: i32 = 4;
    let mut i = 1;
    while i < args.len() {
        match args[i].as_str() {
            "--in" => {
                in_path = args.get(i + 1).cloned();
                i += 1;
            }
            "--out" => {
                out_path = args.get(i + 1).cloned();
                i += 1;
            }
            "--fds" => {
                fd_in = args.get(i + 1).and_then(|s| s.parse().ok()).unwrap_or(3);
                fd_out = args.get(i + 2).and_then(|s| s.parse().ok()).unwrap_or(4);
                i += 2;
            }
            "--stack-mb" => {
                stack_mb = args.get(i + 1).and_then(|s| s.parse().ok()).unwrap_or(256);
                i += 1;
            }
            _ => {}
        }
        i += 1;
    }

    let (reader, mut writer): (Box<dyn BufRead>, Box<dyn Write>) = match (&in_path, &out_path) {
        (Some(i), Some(o)) => (
            Box::new(BufReader::new(std::fs::File::open(i).expect("open --in"))),
            Box::new(io::BufWriter::new(
                std::fs::File::create(o).expect("create --out"),
            )),
        ),
        _ => {
            #[cfg(not(miri))]
            {
                use std::os::unix::io::FromRawFd;
                let r = unsafe { std::fs::File::from_raw_fd(fd_in) };
                let w = unsafe { std::fs::File::from_raw_fd(fd_out) };
                (Box::new(BufReader::new(r)), Box::new(w))
            }
            #[cfg(miri)]
            {
                panic!("miri needs --in/--out")
            }
        }
    };

    #[cfg(not(miri))]
    if in_path.is_none() {
        if let Some(c) = cap::Cap::install() {
            let _ = CAPTURE.set(c);
        }
    }

    for line in reader.lines() {
        let line = match line {
            Ok(l) => l,
            Err(_) => break,
        };
        if line.trim().is_empty() {
            continue;
        }
        let req: J = match serde_json::from_str(&line) {
            Ok(r) => r,
            Err(e) => {
                let _ = writeln!(writer, "{}", json!({"bad_request": e.to_string()}));
                let _ = writer.flush();
                continue;
            }
        };
        let resp = run_request(&req, stack_mb);
        let mut line = resp.to_string();
        line.push('\n');
        let _ = writer.write_all(line.as_bytes());
        let _ = writer.flush();
    }
}
